"""C18 — the three-way reconcile decision is exactly the documented table.

1. TLC, Reconcile.tla: Rec (code-shaped) = Table (documented) on the complete quotient
   (3 digests x 2 types + absent)^3, mirror symmetry, no delete without base, positive
   evidence, invariance under digest renaming; whole-tree loop = declarative plan on all
   maps over 2 paths x both trust settings.
2. spec -> code: every case TLC enumerated is run through the real reconcile / reconcile_path
   (reconcile.rs compiled in unchanged) under several digest concretisations.
3. code -> spec: random 32-byte digests through the real function, validated by TLC against Table.
"""
import json
import os

import vlib
from vlib import Evidence, Verdict, tlc, log


def run(tier):
    ev = Evidence("C18", tier, "model_checking")
    vd = Verdict("C18", ev)
    try:
        bins = vlib.build_harness(["vh_plan"])
    except vlib.ToolError as e:
        # reconcile.rs no longer compiles into the harness: decide the table through `bisync --dry-run` plans and real runs
        log(f"[C18] {e}; falling back to the bisync implementation graph (printed plans vs the table)")
        import bisync_common
        r = tlc("Reconcile", "MC_Reconcile_triple.cfg", workers=4, timeout=900, want_payload=False)
        ev.tlc(r)
        ev.extra["fallback"] = "harness build failed; reconcile decisions observed through bisync --dry-run plans"
        bisync_common.run("C18", tier, ev, vd, finish=False, want_label="C15")
        return vd.finish()
    work = vlib.shm_dir("c18")
    try:
        cases = []
        for cfg in ["MC_Reconcile_triple.cfg", "MC_Reconcile_tree.cfg"] + (
                ["MC_Reconcile_tree3.cfg"] if tier == "thorough" else []):
            r = tlc("Reconcile", cfg, workers=8, timeout=1500)
            ev.tlc(r)
            if r.violation:
                # the spec's own Rec != Table: a modelling error or a doc/code split; decided on the real code below
                vd.nonconformance(f"TLC: {r.violation} violated in {cfg}")
            cs = r.payloads.get("CASE", [])
            log(f"[c18] {cfg}: {r.distinct} states, {len(cs)} cases")
            cases += cs
        cpath = os.path.join(work, "cases.ndjson")
        with open(cpath, "w") as f:
            for c in cases:
                f.write(json.dumps(c) + "\n")
        opath = os.path.join(work, "out.ndjson")
        p = vlib.run_cmd([bins["vh_plan"], "reconcile-cases", cpath, opath, str(vlib.seed())], timeout=1500)
        if p.returncode != 0:
            vlib.harness_died(vd, "vh_plan reconcile-cases", p)
            return vd.finish()
        summary = None
        for line in open(opath):
            d = json.loads(line)
            if d["kind"] == "summary":
                summary = d
            else:
                key = f"{d['kind']}-case{d['case']}-conc{d['conc']}"
                vd.violation(key, f"real reconcile returned {d['got']} where the documented table gives {d['want']}",
                             {"kind": "reconcile-case", "detail": d})
        ev.add(evaluations=summary["evaluations"], traces_validated_against_impl=len(cases))
        nontrivial = sum(1 for c in cases if c["want"])
        ev.add(distinct_nontrivial=nontrivial)
        for c in cases[1000:1003]:
            ev.sample(c)

        # code -> spec
        n = 20000 if tier == "quick" else 2000000
        shard = 50000
        done = 0
        k = 0
        while done < n:
            m = min(shard, n - done)
            tpath = os.path.join(work, f"rand{k}.ndjson")
            p = vlib.run_cmd([bins["vh_plan"], "reconcile-random", str(m), str(vlib.seed() * 1000 + k), tpath])
            if p.returncode != 0:
                vlib.harness_died(vd, "vh_plan reconcile-random", p)
                return vd.finish()
            r = tlc("ReconcileTrace", "ReconcileTrace.cfg", workers=1, timeout=900,
                    env_extra={"TRACE": tpath}, depth_first=True)
            res = r.payloads.get("RESULT", [])
            if not res or res[0]["n"] != m:
                raise vlib.ToolError("ReconcileTrace did not consume the whole trace")
            lines = open(tpath).read().splitlines()
            for b in res[0]["bad"]:
                rec = json.loads(lines[b - 1])
                vd.violation(f"random-{k}-{b}", f"real reconcile_path returned {rec['act']}, not the table's decision",
                             {"kind": "reconcile-random", "record": rec})
            if k == 0:
                ev.sample(json.loads(lines[0]))
            ev.add(evaluations=m, traces_validated_against_impl=m)
            done += m
            k += 1
        ev.add(rule="TLC enumerates every (a,b,base) over (3 digests x {File,Symlink} + absent)^3 and every pair of "
                    "2-path maps over (2 digests x 2 types + absent) x trust; each case is executed on the real "
                    "reconcile/reconcile_path under 6 digest concretisations; non-trivial = plan has >= 1 action. "
                    "Plus random 32-byte-digest calls validated by TLC against Table.",
               exhaustive=True)
        ev.assumptions += ["reconcile.rs is compiled into the harness unchanged via #[path]",
                           "equality classes of random digests are computed by byte comparison in the harness"]
    finally:
        import shutil
        shutil.rmtree(work, ignore_errors=True)
    return vd.finish()


def replay(path):
    d = json.load(open(path))
    print(json.dumps(d, indent=1))
    print("re-run: ./check C18 quick (the case index is stable for a given spec)")
    return 0
