"""Shared pipeline for C04 (exactly the plan), C14 (unchanged tree never re-sent) and the one-way half of C15.

1. TLC, OneWay.tla: every (source, destination) over paths {a, d/b} x 5 metadata values (+ absent) per side x 4 exclude
   lists x --delete x --dry-run; invariants ExactlyThePlan, SecondRunEmpty, ExcludesProtect, DeleteOptIn, DryTouchesNothing.
2. Binding G: each TLC case is materialised and executed with the real `copia sync -r` (local; a share through the ssh
   stand-in as push / pull), followed by an immediate second run; plus seeded cases over a pool of hostile names
   (spaces, quotes, backslashes, $, glob characters, newlines, leading dashes, unicode, nesting, empty and multi-chunk
   files), mtimes 0 .. 2^33 with sub-second parts, --jobs 1/2/8, and induced failures.
3. TLC (OneWayTrace.tla) validates every edge: Conform (= RunDst, plan sizes) and Monitor (C04 / C14 / C15 formulas).
"""
import json
import os
import shutil
from concurrent.futures import ThreadPoolExecutor

import vlib
import oneway_graph as og
from vlib import Evidence, Verdict, tlc, log

SHIMDIR = os.path.join(vlib.VERIF, "shim")


def tlc_cases_to_jobs(cases, tier, seed):
    jobs = []
    names = ["a", "d/b"]
    for i, c in enumerate(cases):
        h = (i * 2654435761 + seed) % 1000
        if tier == "quick":
            d = "local" if h >= 120 else ("push" if h < 60 else "pull")
            if h >= 500 and not c["dry"] and h % 3:      # quick: thin out the local share
                continue
        else:
            d = "local" if h >= 400 else ("push" if h < 200 else "pull")
        secs = [[1_700_000_000, 2**31, 1], [0, 1, 2**33], [2**32 + 1, 0, 5], [2**31 - 1, 2**31, 0], [-86400, -1, 3]][i % 5]
        jobs.append({"id": f"t{i}", "names": names, "secs": secs,
                     "src": [list(x) for x in c["src"]], "dst": [list(x) for x in c["dst"]],
                     "pats": ["".join(p) for p in c["pats"]], "del": c["del"], "dry": c["dry"], "dir": d, "jobs": [1, 2, 4][i % 3]})
    return jobs


def directed_cases():
    """cases the seeded generator hits only by luck: '?' and '??' against names of multi-byte characters (one character is
    one '?', whatever its encoded length), in every direction, with and without --delete"""
    out = []
    names = ["ab", "d/\u30ca\u30e1", "\u00fc", "\u30ca\u30e1", "\u30ca\u30e1\u00e9"]
    for d in ("local", "push", "pull"):
        for v, (pats, dl) in enumerate([(["??"], False), (["?"], True), (["d/??"], True), (["???"], False)]):
            out.append({"id": f"uglob{v}-{d}", "names": names, "secs": [1_700_000_000, 1_600_000_000, 5],
                        "src": [[1, 1, 0], [2, 1, 0], [3, 1, 0], [1, 1, 0], [2, 1, 0]],
                        "dst": [[], [3, 2, 0], [], [2, 2, 0], []] if not dl else [[3, 2, 0], [], [1, 2, 0], [], [3, 2, 0]],
                        "pats": pats, "del": dl, "dry": False, "dir": d, "jobs": 2})
    # two destination names sharing one inode; the sources have the same bytes with different mtimes, or different bytes of
    # the same size: one name is delivered, the other must stay exactly as it was, and the second run is idle
    for d in ("local", "push", "pull"):
        for v, (srcb, dl) in enumerate([([1, 2, 0], False), ([2, 2, 0], False), ([1, 2, 1], True), ([3, 1, 0], False)]):
            out.append({"id": f"hardlink{v}-{d}", "names": ["a.cfg", "b.cfg", "c"], "secs": [1_700_000_000, 1_600_000_000, 5],
                        "src": [[1, 1, 0], srcb, [2, 1, 0]], "dst": [[1, 1, 0], [1, 1, 0], []], "dst_links": [[0, 1]],
                        "pats": [], "del": dl, "dry": False, "dir": d, "jobs": 1 + v % 2})
    # names that merely CONTAIN the staging suffix (a backup of a staging file, a directory named after one): ordinary files -
    # delivered, matched, removed with --delete like any other
    for d in ("local", "push", "pull"):
        for v, dl in enumerate([False, True]):
            out.append({"id": f"stgname{v}-{d}", "names": ["keep.copia-tmp.orig", "report.copia-tmp.bak", "snap.copia-tmp.d/inner", "z"],
                        "secs": [1_700_000_000, 1_600_000_000, 5],
                        "src": [[], [1, 1, 0], [2, 1, 0], [3, 1, 0]], "dst": [[2, 2, 0], [], [1, 2, 0], [3, 1, 0]],
                        "pats": [], "del": dl, "dry": False, "dir": d, "jobs": 1 + v})
    # a root that is a symbolic link to the directory, on either side and in every direction; destination partly in place
    for d in ("local", "push", "pull"):
        for v, (side, dl) in enumerate([("dst", False), ("src", False), ("dst", True), ("src", True)]):
            out.append({"id": f"rootlink{v}-{d}", "names": ["a", "sub/b c", "stale", "z"], "secs": [1_700_000_000, 1_600_000_000, 5],
                        "src": [[1, 1, 0], [2, 1, 1], [], [3, 2, 0]], "dst": [[1, 1, 0], [], [2, 2, 0], [1, 2, 0]],
                        "pats": [], "del": dl, "dry": False, "dir": d, "jobs": 1 + v % 2, "root_link": side})
    # a user's own files whose names END in the staging suffix (no sibling they could be the staging file of): delivered, kept
    # in step, not sent again, removed with --delete like any other file
    for d in ("local", "push", "pull"):
        for v, dl in enumerate([False, True]):
            out.append({"id": f"usertmp{v}-{d}", "names": ["cache/index.db.copia-tmp", "old.copia-tmp", "plain", "z.copia-tmp"],
                        "secs": [1_700_000_000, 1_600_000_000, 5],
                        "src": [[1, 1, 0], [], [2, 1, 0], [3, 1, 0]], "dst": [[], [2, 2, 0], [2, 1, 0], [3, 1, 0]],
                        "pats": [], "del": dl, "dry": False, "dir": d, "jobs": 1 + v})
    # exclude patterns that match nothing in the trees but do match the roots' OWN directory names (the run's roots are
    # .../src and .../dst): patterns are about paths relative to the roots, so the plan, the dry run's listing and the real
    # run's effects are those of a run without them
    for d in ("local", "push", "pull"):
        for v, (pats, dl, dry) in enumerate([(["dst", "src"], True, False), (["?st", "s?c", "d*"], True, False), (["dst"], True, True), (["src", "dst"], False, False)]):
            out.append({"id": f"rootname{v}-{d}", "names": ["keep", "stale", "sub/stale2", "new"], "secs": [1_700_000_000, 1_600_000_000, 5],
                        "src": [[1, 1, 0], [], [], [2, 1, 0]], "dst": [[1, 1, 0], [3, 2, 0], [2, 2, 0], []],
                        "pats": pats, "del": dl, "dry": dry, "dir": d, "jobs": 1 + v % 2})
    return out


def induced_failures(seed):
    out = []
    for k, d in enumerate(["local", "pull", "push"]):
        # file / directory clash: the destination holds a non-empty directory where the source has a file
        out.append({"id": f"clash-{d}", "names": ["x", "x/inner", "y"], "secs": [1_700_000_000, 1_600_000_000, 5],
                    "src": [[1, 1, 0], [], [2, 1, 0]], "dst": [[], [3, 2, 0], []], "pats": [], "del": False, "dry": False,
                    "dir": d, "jobs": 2, "induced": "clash"})
        # the reverse clash: the destination holds a FILE where the source needs a directory
        for v, (dl, pats) in enumerate([(False, []), (True, ["x/a"]), (True, [])]):
            out.append({"id": f"rclash{v}-{d}", "names": ["x/a", "x/a/b", "z"], "secs": [1_700_000_000, 1_600_000_000, 5],
                        "src": [[], [1, 1, 0], [2, 1, 0]], "dst": [[3, 2, 0], [], []], "pats": pats, "del": dl, "dry": False,
                        "dir": d, "jobs": 1 + v, "induced": "clash"})
            out.append({"id": f"rclashdry{v}-{d}", "names": ["x/a", "x/a/b", "z"], "secs": [1_700_000_000, 1_600_000_000, 5],
                        "src": [[], [1, 1, 0], [2, 1, 0]], "dst": [[3, 2, 0], [], []], "pats": pats, "del": dl, "dry": True,
                        "dir": d, "jobs": 1, "induced": "clash"})
    # the transport fails exactly when the stale files are to be removed on the remote side
    out.append({"id": "sshfail-delete-push", "names": ["keep", "stale1", "d/stale2"], "secs": [1_700_000_000, 1_600_000_000, 5],
                "src": [[1, 1, 0], [], []], "dst": [[1, 1, 0], [2, 2, 0], [3, 2, 0]], "pats": [], "del": True,
                "dry": False, "dir": "push", "jobs": 1, "induced": "ssh", "env": {"COPIA_FAKE_SSH_FAIL_RE": "xargs -0 rm"}})
    for k, d in enumerate(["push", "pull"]):
        out.append({"id": f"sshfail-{d}", "names": ["ok1", "victim", "ok2", "other"], "secs": [1_700_000_000, 1_600_000_000, 5],
                    "src": [[1, 1, 0], [2, 1, 0], [3, 1, 1], []], "dst": [[], [1, 2, 0], [], [3, 2, 0]], "pats": [], "del": False,
                    "dry": False, "dir": d, "jobs": 1, "induced": "ssh", "env": {"COPIA_FAKE_SSH_FAIL_RE": "cat.*victim"}})
    return out


def run(pid, tier, ev=None, vd=None, finish=True, accept=None):
    """accept: set of Monitor labels reported under `pid` (default: {pid})"""
    accept = accept or {pid}
    ev = ev or Evidence(pid, tier, "model_checking")
    vd = vd or Verdict(pid, ev)
    copia = vlib.build_repo()
    work = vlib.shm_dir(pid.lower() + "ow")
    try:
        r = tlc("MC_OneWay", "MC_OneWay.cfg", workers=12, timeout=3000, xmx="8g")
        ev.tlc(r)
        if r.violation:
            vd.nonconformance(f"TLC: OneWay invariant {r.violation} fails in the model")
        cases = r.payloads.get("CASE", [])
        jobs = tlc_cases_to_jobs(cases, tier, vlib.seed())
        nrand = 1200 if tier == "quick" else 40000
        jobs += og.random_cases(nrand, vlib.seed())
        jobs += induced_failures(vlib.seed())
        jobs += directed_cases()
        log(f"[{pid}] OneWay: {r.distinct} states, {len(cases)} TLC cases -> {len(jobs)} real edges to run")
        recs = og.run_cases(copia, SHIMDIR, os.path.join(work, "g"), jobs, vlib.seed())
        recs.sort(key=lambda x: x["id"])
        shard = 1500
        files = []
        for i in range(0, len(recs), shard):
            path = os.path.join(work, f"edges{i // shard}.ndjson")
            with open(path, "w") as f:
                for e in recs[i:i + shard]:
                    f.write(json.dumps({k: v for k, v in e.items() if k not in ("rawnames", "rawpats", "stderr", "alien", "id", "induced")}) + "\n")
            files.append((path, len(recs[i:i + shard]), i))

        def validate(fn):
            path, n, off = fn
            rr = tlc("OneWayTrace", "OneWayTrace.cfg", workers=1, timeout=3000, env_extra={"TRACE": path}, depth_first=True, xmx="3g")
            res = rr.payloads.get("RESULT", [])
            if not res or res[0]["n"] != n:
                raise vlib.ToolError("OneWayTrace did not consume " + path + " " + rr.raw_tail[-400:])
            return off, res[0]

        nonconf = 0
        with ThreadPoolExecutor(max_workers=12) as ex:
            for off, res in ex.map(validate, files):
                for (ln, q) in res["bad"]:
                    if q not in accept:
                        continue
                    e = recs[off + ln - 1]
                    vd.violation(f"{e['id']}-{e['dir']}", describe(e, q), {"kind": "oneway-edge", "edge": e})
                for ln in res["nonconf"]:
                    e = recs[off + ln - 1]
                    if e.get("induced"):
                        continue
                    nonconf += 1
                    if nonconf <= 3:
                        vd.nonconformance("edge differs from OneWay!RunDst / plan sizes: " + describe(e, "conform"))
        for e in recs:
            if e["alien"] and pid == "C04":
                vd.violation(f"{e['id']}-alien", f"run created a file outside the plan: {e['alien'][:3]} ({describe(e, 'C04')})", {"kind": "oneway-edge", "edge": e})
                break
        by_dir = {}
        for e in recs:
            by_dir[e["dir"]] = by_dir.get(e["dir"], 0) + 1
        ev.extra.setdefault("oneway", {})
        ev.extra["oneway"] = {"edges": len(recs), "by_direction": by_dir, "mismatched": nonconf,
                              "second_runs": sum(1 for e in recs if e["second"]["ran"]), "dry_runs": sum(1 for e in recs if e["dry"]),
                              "nonzero_exits": sum(1 for e in recs if e["exit"] != 0)}
        ev.add(evaluations=len(recs) + ev.extra["oneway"]["second_runs"], traces_validated_against_impl=len(recs),
               distinct_nontrivial=sum(1 for e in recs if e["plan"][0] > 0 or e["plan"][2] > 0))
        if finish:
            ev.add(rule="every TLC case of OneWay (2 paths x 6 metadata values per side x 4 exclude lists x delete x dry) executed for real "
                        "(quick: thinned local share; remote directions on a share), each successful run followed by a second run; plus "
                        "seeded cases over hostile names / mtimes / jobs and induced failures. non-trivial = the plan transfers or deletes.",
                   exhaustive=False)
        for e in [x for x in recs if x["plan"][0] > 0 and x["dir"] != "local"][:2] + [x for x in recs if x["id"].startswith("r")][:1]:
            ev.sample({k: e[k] for k in ("rawnames", "src", "dst", "rawpats", "del", "dry", "dir", "dst2", "exit", "plan", "second")})
        ev.assumptions += ["push / pull run through the ssh stand-in (bash + GNU find/xargs/touch), which executes the exact command strings the code builds",
                           "destination comparison: bytes + whole-second mtime; 'left exactly as they were' compares the full nanosecond mtime"]
    finally:
        shutil.rmtree(work, ignore_errors=True)
    return vd.finish() if finish else 0


def describe(e, q):
    def tree(arr):
        return "{" + ", ".join(f"{n!r}:{m}" for n, m in zip(e["rawnames"], arr) if m) + "}"
    s = (f"[{q}] sync -r {e['dir']} jobs={e['jobs']} delete={e['del']} dry={e['dry']} exclude={e['rawpats']}: src={tree(e['src'])} dst={tree(e['dst'])} "
         f"--> dst={tree(e['dst2'])} exit={e['exit']} plan={e['plan']} sent={e['sent']} staging_left={e['staging']} second={e['second']}")
    if e["dry"]:
        s += f" printed_send={e['printed_send']} printed_delete={e['printed_delete']}"
    if e["exit"]:
        s += " stderr=" + e["stderr"][-160:].replace("\n", " | ")
    return s


def replay(path):
    d = json.load(open(path))
    print(d.get("what"))
    print(json.dumps(d.get("edge"), indent=1)[:3000])
    return 0
