"""C11 — a hub client can never reach outside the served directory.

1. TLC, PathGuard.tla: every path of <= 4 components over {"", ".", "..", name, "..name", "name..", "...", long} with and
   without a leading slash: Refused vs the kernel's walk (also of the staging / conflict-copy siblings): not refused
   => never leaves ROOT.
2. Binding E + shim log: each enumerated path is sent as Get, Put (with content) and Delete to a real server; the shim
   logs every file call (roots "/"; start-up calls whitelisted by calibration); sentinels next to ROOT are compared;
   refused paths must answer "bad path", create nothing and leave the probe sequence's replies equal to a fresh session's.
3. TLC (PathGuardTrace.tla) decides every record (effect-based, DESIGN A6) and checks refused-set conformance.
"""
import json
import os
import random
import shutil
from concurrent.futures import ThreadPoolExecutor

import vlib
import hub_paths as hp
import hub_runs as hr
from vlib import Evidence, Verdict, tlc, log


def run(tier):
    pid = "C11"
    ev = Evidence(pid, tier, "model_checking")
    vd = Verdict(pid, ev)
    copia = vlib.build_repo()
    shim = vlib.build_shim()
    bins = vlib.build_harness(["vh_lib"])
    work = vlib.shm_dir("c11")
    try:
        r = tlc("PathGuard", "MC_PathGuard.cfg", workers=8, timeout=1500)
        ev.tlc(r)
        if r.violation:
            vd.nonconformance(f"TLC: PathGuard invariant {r.violation} fails")
        cases = r.payloads.get("CASE", [])
        rng = random.Random(vlib.seed())
        if tier == "quick":
            small = [c for c in cases if len(c["comps"]) <= 3]
            rest = [c for c in cases if len(c["comps"]) > 3]
            rng.shuffle(rest)
            cases = small + rest[:800]
        # very long refused paths (the model's alphabet has one "long" component; these go beyond it)
        for big in ("XL", "CTL", "BSL", "U2", "U2a", "U3", "U3a", "U3b", "U4", "U4a"):
            cases += [{"abs": False, "comps": ["..", big]}, {"abs": True, "comps": [big]}, {"abs": False, "comps": [big, "..", "n"]},
                      {"abs": False, "comps": ["d", big, "..", "..", "..", "n"]}]
        for bk in ("BK1", "BK2", "BK3", "BK4"):
            cases += [{"abs": False, "comps": [bk]}, {"abs": False, "comps": ["n", bk]}, {"abs": False, "comps": [bk, "n"]}]
        # names that only LOOK like (or could be "cleaned" into) a climbing or absolute path: one component each, nothing to
        # refuse, and nothing may leave the root - whatever the server does with them (an unusable name may end the session)
        for z in ("Z1", "Z2", "Z3", "W1", "W2", "W3", "W4", "W5", "W6", "P1", "P2", "P3", "F1", "F2"):
            cases += [{"abs": False, "comps": [z, "n"]}, {"abs": False, "comps": ["d", z, z, "n"]}, {"abs": False, "comps": [z]}]
        cases += [{"abs": False, "comps": ["Z0", "PARENT", "n"]}, {"abs": False, "comps": ["Z0", "PARENT", "sibling", "inner.txt"]},
                  {"abs": False, "comps": ["W0", "PARENT", "n"]}]
        log(f"[C11] PathGuard: {r.distinct} states, {len(cases)} paths to send")
        hashes = hr.compute_hashes(bins["vh_lib"], work)
        recs = hp.run_cases(copia, shim, os.path.join(work, "p"), hashes, cases)
        files = []
        shard = 2500
        for i in range(0, len(recs), shard):
            path = os.path.join(work, f"paths{i // shard}.ndjson")
            with open(path, "w") as f:
                for e in recs[i:i + shard]:
                    f.write(json.dumps({k: v for k, v in e.items() if k not in ("replies", "path")}) + "\n")
            files.append((path, len(recs[i:i + shard]), i))

        def validate(fn):
            path, n, off = fn
            rr = tlc("PathGuardTrace", "PathGuardTrace.cfg", workers=1, timeout=2500, env_extra={"TRACE": path}, depth_first=True)
            res = rr.payloads.get("RESULT", [])
            if not res or res[0]["n"] != n:
                raise vlib.ToolError("PathGuardTrace did not consume " + path)
            return off, res[0]

        nonconf = 0
        with ThreadPoolExecutor(max_workers=6) as ex:
            for off, res in ex.map(validate, files):
                for (ln, q) in res["bad"]:
                    e = recs[off + ln - 1]
                    vd.violation(f"{q}-" + ("abs-" if e["abs"] else "") + "_".join(e["comps"]),
                                 f"client path {e['path']!r}: {q}; outside effects={e['outside']} sentinels_ok={e['sentinels_ok']} "
                                 f"refused={e['refused_by_server']} tree_unchanged={e['tree_unchanged']} probe_equal={e['probe_equal']} exit={e['exit']} replies={e['replies']}",
                                 {"kind": "hub-path", "record": e})
                for ln in res["nonconf"]:
                    nonconf += 1
                    if nonconf <= 3:
                        e = recs[off + ln - 1]
                        vd.nonconformance(f"path {e['path']!r}: server refused={e['refused_by_server']} but PathGuard!Refused={not e['refused_by_server']}")
        ev.extra["conformance"] = {"paths": len(recs), "refused_set_mismatches": nonconf}
        ev.add(evaluations=len(recs) * 3, traces_validated_against_impl=len(recs),
               distinct_nontrivial=sum(1 for e in recs if e["refused_by_server"]),
               rule="each enumerated path string is sent as Get, Put and Delete to one fresh server; non-trivial = the path is refused "
                    "(absolute or climbing). quick: all paths of <= 3 components + a seeded 800 of the 4-component ones; thorough: all 9362.",
               exhaustive=(tier == "thorough"))
        ev.sample(recs[len(recs) // 2])
        ev.assumptions += ["served tree without symlinks leading outside; lexical normalisation of logged paths (DESIGN A6)",
                           "start-up file calls whitelisted by an empty-session calibration on the same binary"]
    finally:
        shutil.rmtree(work, ignore_errors=True)
    return vd.finish()


def replay(path):
    print(json.dumps(json.load(open(path)), indent=1)[:3000])
    return 0
