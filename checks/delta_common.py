"""Shared pipeline for C01 (round trip) and C16 (no worse than textbook greedy).

1. TLC, DeltaEngine.tla: every (basis, source) over the symbol alphabet {R1,R2,H,K1,K2} up to length 3 (quick) / 4
   (thorough) x symbols-per-block B: scan machine, patch machine, textbook greedy; all clauses as invariants.
   The "split" weak-hash variant (signature side != scan side for high-sum blocks, the pinned commit's defect class)
   must still be refuted for C16.
2. spec -> code: each case is expanded to real bytes (DESIGN 4.2) for real block sizes and run through CopiaSync,
   AsyncCopiaSync (signature/delta/patch, cross-compared), a rotating subset through the CLI file chain and
   `copia sync SRC DST`.  Conform: real Delta.ops = spec ops scaled.  Monitor: property clauses.
3. code -> spec: large seeded cases (identical files, k-byte insert/delete/replace at every alignment class, > 5000
   and > 10000 slides, constant and repeated blocks, weak-colliding neighbours, odd block sizes at library level,
   > 64 KiB) with an independently computed match map; DeltaTrace.tla decides them.
"""
import json
import os
import shutil
from concurrent.futures import ThreadPoolExecutor

import vlib
from vlib import Evidence, Verdict, tlc, log


def run(pid, tier):
    ev = Evidence(pid, tier, "model_checking")
    vd = Verdict(pid, ev)
    copia = vlib.build_repo()
    bins = vlib.build_harness(["vh_lib"])
    work = vlib.shm_dir(pid.lower())
    try:
        cfg = "MC_Delta_quick.cfg" if tier == "quick" else "MC_Delta_thorough.cfg"
        r = tlc("DeltaEngine", cfg, workers=12, timeout=3000, xmx="12g")
        ev.tlc(r)
        if r.violation:
            vd.nonconformance(f"TLC: DeltaEngine invariant {r.violation} fails ({cfg})")
        cases = r.payloads.get("CASE", [])
        log(f"[{pid}] DeltaEngine {cfg}: {r.distinct} states, {len(cases)} cases")
        if pid == "C16":
            r0 = tlc("DeltaEngine", "MC_Delta_split.cfg", workers=2, timeout=300, want_payload=False)
            ev.extra["split_weak_variant_refuted"] = r0.violation
            if not r0.violation:
                raise vlib.ToolError("sanity: TLC no longer refutes C16 under the split-weak-hash variant")
        cpath, opath = os.path.join(work, "cases.ndjson"), os.path.join(work, "out.ndjson")
        with open(cpath, "w") as f:
            for c in cases:
                f.write(json.dumps(c) + "\n")
        env = dict(os.environ, VERIF_SHIMDIR=os.path.join(vlib.VERIF, "shim"))
        p = vlib.run_cmd([bins["vh_lib"], "delta-cases", cpath, opath, str(vlib.seed()), tier, copia,
                          os.path.join(work, "cli")], timeout=6000, env=env)
        if p.returncode != 0:
            vlib.harness_died(vd, "vh_lib delta-cases", p)
            return vd.finish()
        nonconf = 0
        for line in open(opath):
            d = json.loads(line)
            if d["kind"] == "summary":
                summ = d
            elif d["kind"] == "nonconf":
                nonconf += 1
                if nonconf <= 3:
                    vd.nonconformance(f"case {d['case']} R={d['R']}: {d['what']}")
            else:
                is16 = d["what"].startswith("C16")
                if is16 == (pid == "C16"):
                    vd.violation(f"case{d['case']}-R{d['R']}", d["what"], {"kind": "delta-case", "detail": d})
        ev.extra["conformance"] = {"cases_x_blocksizes": summ["evaluations"], "mismatched": nonconf}
        ev.add(evaluations=summ["evaluations"], distinct_nontrivial=summ["nontrivial"],
               traces_validated_against_impl=summ["evaluations"])
        ev.extra["cli_chain_cases"] = summ["cli_cases"]
        ev.sample(cases[len(cases) // 2])

        p = vlib.run_cmd([bins["vh_lib"], "delta-large", os.path.join(work, "L"), str(vlib.seed()), tier], timeout=3000)
        if p.returncode != 0:
            vlib.harness_died(vd, "vh_lib delta-large", p)
            return vd.finish()
        ls = json.loads(p.stdout.decode().strip().splitlines()[-1])

        def validate(fn):
            path, n = fn
            r = tlc("DeltaTrace", "DeltaTrace.cfg", workers=1, timeout=2500, env_extra={"TRACE": path}, depth_first=True)
            res = r.payloads.get("RESULT", [])
            if not res or res[0]["n"] != n:
                raise vlib.ToolError("DeltaTrace did not consume " + path)
            return path, res[0]

        with ThreadPoolExecutor(max_workers=8) as ex:
            for path, res in ex.map(validate, ls["files"]):
                lines = open(path).read().splitlines()
                for b in res["bad16" if pid == "C16" else "bad"]:
                    rec = json.loads(lines[b - 1])
                    rec["matches"] = rec["matches"][:50]
                    vd.violation(f"large-{rec['label']}-R{rec['R']}".replace(" ", "_"),
                                 f"large case '{rec['label']}' R={rec['R']}: real delta violates the property "
                                 f"(ops={rec['ops'][:6]}, flags: lit_ok={rec['lit_ok']} fields_ok={rec['fields_ok']} "
                                 f"patched_ok={rec['patched_ok']} engines_agree={rec['engines_agree']})",
                                 {"kind": "delta-large", "record": rec})
                for b in res["nonconf"][:3]:
                    rec = json.loads(lines[b - 1])
                    vd.nonconformance(f"large case '{rec['label']}' R={rec['R']}: real ops are not the scan machine's behaviour over the match map")
                ev.add(evaluations=res["n"], traces_validated_against_impl=res["n"])
                if len(ev.cov["samples"]) < 3:
                    rec = json.loads(lines[len(lines) // 2])
                    rec["matches"] = rec["matches"][:8]
                    ev.sample(rec)
        ev.add(rule="TLC enumerates all (basis, source) symbol strings up to length 3/4 over 5 symbol classes x B in {1,2}(,4); "
                    "each is expanded to bytes for block sizes 512, 2048, 65536 (all eight on a 5% sample; all eight in thorough) and "
                    "executed on both engines (+ CLI chain, local single-file sync and push / pull single-file sync through the ssh stand-in on a rotating subset); thorough: 512 and 65536 on every case, all eight on every 10th. non-trivial = the expected delta has both a copy and a literal. "
                    "Plus ~770 (quick) seeded large cases validated by TLC over an independent match map.",
               exhaustive=False)
        ev.assumptions += ["BLAKE3 treated as injective; byte equality of literals / patched output observed by the harness",
                           "symbol expansion: unaligned windows equal an aligned block with negligible probability (random chunks)"]
    finally:
        shutil.rmtree(work, ignore_errors=True)
    return vd.finish()


def replay(path):
    print(json.dumps(json.load(open(path)), indent=1)[:4000])
    return 0
