"""C13 — hub-sync lands the local tree on the hub and skips what is already there.

1. TLC, HubSync.tla: two clients' runs (List, then CAS-Puts in path order) interleaved between requests over 2 paths
   x contents {1,2}; clauses evaluated when a run finishes: Lands (undisturbed success), NothingLost (CAS loss),
   SecondRunIdle.
2. Binding G: seeded sequential histories of real `copia hub-sync` runs by two clients (local-path target and
   host:root through the ssh stand-in), every run followed by a second run; names incl. nesting, spaces/quotes and a
   dot-file beginning with ".copia"; contents incl. empty and multi-buffer files.
3. Binding S: the stale-listing window - client A's server is held at its first staging open, or at the moment it
   asks for the commit lock (scheduling shim), while client B's hub-sync runs to completion, then released.
4. TLC (HubSyncTrace.tla) decides every record.
"""
import json
import os
import shutil

import vlib
import hubsync_runs as hs
from vlib import Evidence, Verdict, tlc, log

SHIMDIR = os.path.join(vlib.VERIF, "shim")


def run(tier):
    pid = "C13"
    ev = Evidence(pid, tier, "model_checking")
    vd = Verdict(pid, ev)
    copia = vlib.build_repo()
    shim = vlib.build_shim()
    bins = vlib.build_harness(["vh_lib"])
    work = vlib.shm_dir("c13")
    try:
        r = tlc("MC_HubSync", "MC_HubSync.cfg", workers=8, timeout=1500, want_payload=False)
        ev.tlc(r)
        if r.violation:
            vd.nonconformance(f"TLC: HubSync invariant {r.violation} fails in the model")
        hexes = {}
        for c, data in hs.CONTENT.items():
            p = os.path.join(work, f"c{c}")
            open(p, "wb").write(data)
            hexes[vlib.run_cmd([bins["vh_lib"], "b3", p]).stdout.decode().strip()[:12]] = c
        nh, nr = (60, 40) if tier == "quick" else (6000, 2500)
        hist_jobs = [(vlib.seed() * 100 + i, 6) for i in range(nh)]
        hist_jobs += [(vlib.seed() * 100 + 90_000 + k, len(sc), sc) for k, sc in enumerate(hs.SCRIPTS)]          # file / directory clashes on the hub
        race_jobs = [(vlib.seed() * 77 + i, "path" if i % 2 == 0 else "host", "stage" if i % 4 < 2 else "flock") for i in range(nr)]
        # scripted windows with a file / directory clash between what A sends and what B commits meanwhile
        race_jobs += [(vlib.seed() * 77 + 50_000 + k, form, "stage", sc) for k, sc in enumerate(hs.CLASH_RACES) for form in ("path", "host")]
        race_jobs += [(vlib.seed() * 77 + 60_000 + k, form, "stage", sc) for k, sc in enumerate(hs.EMPTY_RACES) for form in ("path", "host")]
        race_jobs += [(vlib.seed() * 77 + 70_000 + 10 * k + j, form, hold, sc) for k, sc in enumerate(hs.SAMELEN_RACES)
                      for j, (form, hold) in enumerate([("path", "stage"), ("host", "stage"), ("path", "flock"), ("host", "flock")])]
        recs = hs.run_all(copia, shim, SHIMDIR, os.path.join(work, "x"), hexes, hist_jobs, race_jobs,
                          large=(3000, 13000) if tier == "quick" else (3000, 9000, 13000, 40000))
        log(f"[C13] large trees: " + ", ".join(f"{x['n']} files -> second run exit {x['second']['exit']}" for x in recs if x["kind"] == "large"))
        log(f"[C13] {sum(1 for x in recs if x['kind'] == 'seq')} sequential runs, {sum(1 for x in recs if x['kind'] == 'race')} stale-listing races "
            f"({sum(1 for x in recs if x['kind'] == 'race' and x['held'])} with the server actually held)")
        if nr and not any(x["kind"] == "race" and x["held"] for x in recs):
            # vacuity guard: the race clauses decide nothing if no server was ever held at its staging open / flock
            raise vlib.ToolError("no stale-listing race could be produced (no server was held by the scheduling shim)")
        path = os.path.join(work, "hubsync.ndjson")
        with open(path, "w") as f:
            for e in recs:
                f.write(json.dumps({k: v for k, v in e.items() if k not in ("stderr", "stderrA", "names")}) + "\n")
        rr = tlc("HubSyncTrace", "HubSyncTrace.cfg", workers=1, timeout=2500, env_extra={"TRACE": path}, depth_first=True)
        res = rr.payloads.get("RESULT", [])
        if not res or res[0]["n"] != len(recs):
            raise vlib.ToolError("HubSyncTrace did not consume the trace " + rr.raw_tail[-300:])
        soft = 0
        for (ln, q) in res[0]["bad"]:
            e = recs[ln - 1]
            if e["kind"] == "race" and (not e["held"] or (e["exitB"] != 0 and q != "undisturbed-client-failed")):
                continue           # the window was not produced (nothing to stage / B never committed): not an instance of the scenario
            if e["kind"] == "large":
                vd.violation(f"large-tree-{e['n']}-{q}", f"{q}: a local tree of {e['n']} files: first run exit {e['exit']} landed={e['landed']}; "
                             f"second run exit {e['second']['exit']} sent={e['second']['sent']} ({e['stderr'][-100:].strip()})", {"kind": "hubsync-large", "record": e, "n": e["n"]})
                continue
            if q in ("sequential-run-failed", "undisturbed-client-failed"):
                # C13 binds runs that exit 0 (and runs that fail BECAUSE the hub changed); a run that fails for another
                # reason - a name the wire cannot carry, a reserved path - breaks no clause: reported, not an alarm
                soft += 1
                if soft <= 3:
                    vd.nonconformance(f"{q} (no clause of C13 binds a run that refuses to start or stops with its own error): "
                                      + json.dumps({k: v for k, v in e.items() if k != "names"})[:300])
                continue
            key = f"{e['kind']}-{q}-" + "".join(map(str, e.get("local", e.get("localA")))) + "-" + "".join(map(str, e["hub"]))
            vd.violation(key, f"{q}: " + json.dumps({k: v for k, v in e.items() if k != "names"})[:600], {"kind": "hubsync", "record": e, "names": hs.NAMES})
        nonconf = [recs[ln - 1] for ln in res[0]["nonconf"]]
        for e in nonconf[:3]:
            vd.nonconformance("sequential hub-sync run differs from HubSync's run semantics: " + json.dumps({k: v for k, v in e.items() if k != "names"})[:400])
        ev.extra["conformance"] = {"records": len(recs), "mismatched": len(nonconf)}
        ev.add(evaluations=len(recs) + sum(1 for x in recs if x["kind"] == "seq"), traces_validated_against_impl=len(recs),
               distinct_nontrivial=sum(1 for x in recs if (x["kind"] == "seq" and x["sent"] > 0) or (x["kind"] == "race" and x["held"])),
               rule="seeded histories of 6 hub-sync runs by two clients with local edits in between (each run + an immediate second run), "
                    "both target forms; plus stale-listing races forced by the scheduling shim. non-trivial = the run sent a file / the "
                    "race window was really produced.", exhaustive=False)
        ev.sample({k: v for k, v in recs[1].items() if k != "names"})
        ev.sample({k: v for k, v in [x for x in recs if x["kind"] == "race"][0].items() if k != "names"})
        ev.sample([x for x in recs if x["kind"] == "large"][-1])
        ev.assumptions += ["host:root targets run through the ssh stand-in with the built binary first on PATH",
                           "in a race only client A's processes run under the shim; B runs natively while A's server is parked"]
    finally:
        shutil.rmtree(work, ignore_errors=True)
    return vd.finish()


def replay(path):
    print(json.dumps(json.load(open(path)), indent=1)[:3000])
    return 0
