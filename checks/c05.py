"""C05 — patch never reports success on wrong bytes.

1. TLC, PatchCorrupt.tla: every valid (basis, delta) over {R1,R2}^<=3 x B in {1,2} x every single corruption of the
   property's list (truncate/extend/flip/empty basis; copy offset/length edits; drop/duplicate/swap ops; literal edit;
   source_size / basis_size / block_size / checksum edits): the patch machine's outcome class, success only on the
   checksum's bytes.
2. spec -> code: each case expanded to bytes and run through sync patch, async patch and (subset + all block_size
   cases) `copia patch`.  Conform: outcome class per engine.  Monitor: reported success => BLAKE3(written bytes) =
   delta.checksum (recomputed by the harness); no panic / signal; CLI exit in {0,1}.
3. code -> spec: seeded byte/bit-level multi-corruptions of real-size pairs; PatchTrace.tla decides each record.
"""
import json
import os
import shutil

import vlib
from vlib import Evidence, Verdict, tlc, log


def run(tier):
    pid = "C05"
    ev = Evidence(pid, tier, "model_checking")
    vd = Verdict(pid, ev)
    copia = vlib.build_repo()
    bins = vlib.build_harness(["vh_lib"])
    work = vlib.shm_dir("c05")
    try:
        cfg = "MC_PatchCorrupt_quick.cfg" if tier == "quick" else "MC_PatchCorrupt_thorough.cfg"
        r = tlc("PatchCorrupt", cfg, workers=12, timeout=3000, xmx="8g")
        ev.tlc(r)
        if r.violation:
            vd.nonconformance(f"TLC: PatchCorrupt invariant {r.violation} fails")
        cases = r.payloads.get("CASE", [])
        log(f"[C05] PatchCorrupt: {r.distinct} states, {len(cases)} cases")
        cpath, opath = os.path.join(work, "cases.ndjson"), os.path.join(work, "out.ndjson")
        with open(cpath, "w") as f:
            for c in cases:
                f.write(json.dumps(c) + "\n")
        p = vlib.run_cmd([bins["vh_lib"], "patch-cases", cpath, opath, str(vlib.seed()), tier, copia,
                          os.path.join(work, "cli")], timeout=3000)
        if p.returncode != 0:
            vlib.harness_died(vd, "vh_lib patch-cases", p)
            return vd.finish()
        nonconf = 0
        for line in open(opath):
            d = json.loads(line)
            if d["kind"] == "summary":
                summ = d
            elif d["kind"] == "nonconf":
                nonconf += 1
                if nonconf <= 3:
                    vd.nonconformance(f"case {d['case']} ({d['corr']}): {d['what']}")
            else:
                k = d["input"]["corr"]["k"]
                vd.violation(f"case{d['case']}-{k}", d["what"] + f" [corruption {d['input']['corr']}]",
                             {"kind": "patch-case", "detail": d})
        ev.extra["conformance"] = {"runs": summ["evaluations"], "mismatched": nonconf}
        ev.add(evaluations=summ["evaluations"], distinct_nontrivial=summ["nontrivial"],
               traces_validated_against_impl=summ["evaluations"])
        ev.extra["cli_cases"] = summ["cli_cases"]
        ev.sample(cases[len(cases) // 2])

        n = 6000 if tier == "quick" else 60000
        done, k = 0, 0
        while done < n:
            m = min(6000, n - done)
            tpath = os.path.join(work, f"rand{k}.ndjson")
            p = vlib.run_cmd([bins["vh_lib"], "patch-random", str(m), tpath, str(vlib.seed() * 31 + k), copia,
                              os.path.join(work, f"pr{k}")], timeout=3000)
            if p.returncode != 0:
                vlib.harness_died(vd, "vh_lib patch-random", p)
                return vd.finish()
            r = tlc("PatchTrace", "PatchTrace.cfg", workers=1, timeout=1500, env_extra={"TRACE": tpath}, depth_first=True)
            res = r.payloads.get("RESULT", [])
            lines = open(tpath).read().splitlines()            # m seeded records + the uncorrupted big-literal pair
            if not res or res[0]["n"] != len(lines) or len(lines) < m:
                raise vlib.ToolError("PatchTrace did not consume the whole trace")
            for b in res[0]["bad"]:
                rec = json.loads(lines[b - 1])
                vd.violation(f"random-{k}-{b}",
                             f"corrupted pair {rec['corruptions']}: sync={rec['sync']}(hash_ok={rec['sync_hash_ok']}) "
                             f"async={rec['async']}(hash_ok={rec['async_hash_ok']}) cli={rec['cli']}(hash_ok={rec['cli_hash_ok']})",
                             {"kind": "patch-random", "seed": vlib.seed() * 31 + k, "index": b, "record": rec})
            for b in res[0]["nonconf"][:3]:
                vd.nonconformance(f"random corruption {k}/{b}: outcome class differs from the patch machine's: {lines[b-1][:200]}")
            ev.extra.setdefault("random_nonconformant", 0)
            ev.extra["random_nonconformant"] += len(res[0]["nonconf"])
            if k == 0:
                ev.sample(json.loads(lines[1]))
            ev.add(evaluations=m, traces_validated_against_impl=m)
            done += m
            k += 1
        # an output that cannot take the bytes (a full device): uncorrupted pairs whose result ends in one large write, in many
        # small ones, in copies only - `copia patch` must not exit 0, whichever write it is that fails (H28)
        import random
        import subprocess
        rng = random.Random(vlib.seed())
        fd = os.path.join(work, "full")
        os.makedirs(fd, exist_ok=True)
        nfull = 0
        for name, blen, mk in [("literal-tail", 3000, lambda b: b + rng.randbytes(300_000)), ("copies-only", 1 << 20, lambda b: b),
                               ("small", 3000, lambda b: b[:1500] + b"x" + b[1500:]), ("one-block-literal", 4096, lambda b: rng.randbytes(2048)),
                               ("mixed", 200_000, lambda b: b[:70_000] + rng.randbytes(66_000) + b[70_000:])]:
            basis = rng.randbytes(blen)
            for fn, data in (("b", basis), ("s", mk(basis))):
                with open(os.path.join(fd, fn), "wb") as f:
                    f.write(data)
            env = dict(os.environ, RUST_LOG="off")
            q = [subprocess.run([copia, "signature", os.path.join(fd, "b"), "-o", os.path.join(fd, "sig")], capture_output=True, env=env),
                 subprocess.run([copia, "delta", os.path.join(fd, "s"), os.path.join(fd, "sig"), "-o", os.path.join(fd, "d")], capture_output=True, env=env)]
            if any(x.returncode != 0 for x in q):
                raise vlib.ToolError(f"full-device case {name}: could not build the valid pair: {q[-1].stderr[-200:]}")
            pr = subprocess.run(["timeout", "30", copia, "patch", os.path.join(fd, "b"), os.path.join(fd, "d"), "-o", "/dev/full"], capture_output=True, env=env)
            nfull += 1
            if pr.returncode == 0:
                vd.violation(f"full-device-{name}", f"`copia patch` onto a full device exited 0 ({pr.stdout.decode('utf8', 'replace').strip()[:100]}): "
                             f"success reported for bytes that were never written (valid pair '{name}', basis {blen} bytes)",
                             {"kind": "patch-full-device", "case": name, "seed": vlib.seed()})
            elif pr.returncode not in (1, 2):
                vd.violation(f"full-device-crash-{name}", f"`copia patch` onto a full device ended with status {pr.returncode}: {pr.stderr.decode('utf8', 'replace')[-200:]}",
                             {"kind": "patch-full-device", "case": name, "seed": vlib.seed()})
        ev.extra["full_device_cases"] = nfull
        ev.add(evaluations=nfull, traces_validated_against_impl=nfull)
        ev.add(rule="TLC enumerates every valid (basis, delta) over 2 symbols, length <= 3, B in {1,2} x every single corruption; "
                    "each is run at 2 (quick) / 4 block sizes on both engines, a subset on the CLI. non-trivial = predicted "
                    "outcome is an error. Plus seeded 1-3-fold byte-level corruptions of real pairs validated by TLC.",
               exhaustive=False)
        ev.assumptions += ["harness profile has debug assertions and overflow checks on (DESIGN A9)",
                           "'success' hash check recomputed with the blake3 crate"]
    finally:
        shutil.rmtree(work, ignore_errors=True)
    return vd.finish()


def replay(path):
    print(json.dumps(json.load(open(path)), indent=1)[:4000])
    return 0
