"""Shared pipeline for C02 (no version lost), C06 (converges / records / idempotent / order+mtime independent /
conflict shape), C07 (no-base never deletes) and the bisync half of C15 (dry run).

1. TLC, Bisync.tla: user edits, archive faults and runs over 1 base path (+ its conflict-copy names to depth 2,
   collision suffix -1) x contents {1,2} ordered as their BLAKE3; invariants NoLoss, Converged, ConflictShape,
   NoBaseNoDelete, MirrorSym.  Regression variants (FixStale / FixCollide off = pinned commit) must be refuted.
2. Binding G: BFS of the real `copia bisync` over the same universe (lib/bisync_graph.py); every Run edge
   (and DryRun, and a seeded share re-executed with re-drawn mtimes and with the roots named in the other order)
   is validated by TLC (BisyncTrace.tla): Conform = RunResult, Monitor = the property formulas on the observed pair.
3. C07: every concrete archive fault kind injected on (a sample of / all) reachable trusted states.
"""
import json
import os
import random
import shutil
from concurrent.futures import ThreadPoolExecutor

import vlib
import bisync_graph as bg
from vlib import Evidence, Verdict, tlc, log

TIERS = {
    "quick": dict(cfg="MC_Bisync_quick.cfg", tcfg="BisyncTrace_quick.cfg", editable="low", C=2, alt_every=8, fault_states=120, max_states=None,
                  extra=[dict(cfg="MC_Bisync_two.cfg", tcfg="BisyncTrace_two.cfg", editable="base", C=2, alt_every=10, max_states=None),
                         dict(cfg="MC_Bisync_quick.cfg", tcfg="BisyncTrace_quick.cfg", editable="low", C=2, alt_every=10, max_states=None, link="seed")]),
    "thorough": dict(cfg="MC_Bisync_thorough.cfg", tcfg="BisyncTrace_quick.cfg", editable="all", C=2, alt_every=4, fault_states=3000, max_states=None,
                     extra=[dict(cfg="MC_Bisync_two.cfg", tcfg="BisyncTrace_two.cfg", editable="base", C=2, alt_every=4, max_states=None),
                            dict(cfg="MC_Bisync_c3.cfg", tcfg="BisyncTrace_c3.cfg", editable="low", C=3, alt_every=6, max_states=None),
                            dict(cfg="MC_Bisync_quick.cfg", tcfg="BisyncTrace_quick.cfg", editable="low", C=2, alt_every=4, max_states=None, link="low"),
                            dict(cfg="MC_Bisync_quick.cfg", tcfg="BisyncTrace_quick.cfg", editable="low", C=2, alt_every=4, max_states=None, link="high")]),
}


def link_contents(bins, work, low):
    """two versions of which one is a SYMBOLIC LINK (its target string is what bisync fingerprints); ids ascend with BLAKE3.
    The target '../tgt-N' resolves, from either root, to a file holding the other version's bytes."""
    base = json.loads(vlib.run_cmd([bins["vh_lib"], "gen-contents", "2"]).stdout)
    other = base[1] if low else base[0]
    tmp = os.path.join(work, "linkname")
    for n in range(4000):
        target = f"../tgt-{n}"
        with open(tmp, "wb") as f:
            f.write(target.encode())
        hx = vlib.run_cmd([bins["vh_lib"], "b3", tmp]).stdout.decode().strip()
        if (low and hx < other["hex"] and hx[0] == "0") or (not low and hx > other["hex"]):
            link = {"hex": hx, "text": target, "link": True, "deref": other["text"]}
            return [link, other] if low else [other, link]
    raise vlib.ToolError("no link target with a suitable hash found")


def explore_universe(pid, U, copia, bins, work, tag, ev, vd):
    """model-check one universe, explore the implementation graph over it, return (uni, contents, edges, stats, trusted, blobs, tcfg)"""
    ppath = os.path.join(work, f"paths-{tag}.json")
    r = tlc("MC_Bisync", U["cfg"], workers=12, timeout=3000, xmx="12g", env_extra={"PATHS_OUT": ppath})
    ev.tlc(r)
    if r.violation:
        vd.nonconformance(f"TLC: Bisync invariant {r.violation} fails in the model ({U['cfg']})")
    pathlist = json.load(open(ppath))
    if U.get("link"):
        low = (vlib.seed() % 2 == 1) if U["link"] == "seed" else (U["link"] == "low")
        contents = link_contents(bins, work, low)
    else:
        contents = json.loads(vlib.run_cmd([bins["vh_lib"], "gen-contents", str(U["C"])]).stdout)
    uni = bg.Universe(pathlist, contents, [])
    if U["editable"] == "low":
        editable = [i for i, q in enumerate(uni.paths) if len(q) == 1 or (len(q) == 2 and q[1] == (1, 0))]
    elif U["editable"] == "base":
        editable = [i for i, q in enumerate(uni.paths) if len(q) == 1]
    else:
        editable = [i for i, q in enumerate(uni.paths) if len(q) == 1 or (len(q) == 2 and q[1][1] == 0)]
    blob = (pathlist, contents, editable)
    edges, stats, trusted, blobs = bg.explore(copia, blob, vlib.seed(), os.path.join(work, "g" + tag), max_states=U["max_states"], alt_every=U["alt_every"])
    log(f"[{pid}] universe {U['cfg']}: model {r.distinct} states, implementation graph {stats['distinct_states']} states, {stats['run_edges']} runs")
    stats["model_states"] = r.distinct
    return uni, contents, blob, edges, stats, trusted, blobs


def run(pid, tier, ev=None, vd=None, finish=True, want_label=None):
    ev = ev or Evidence(pid, tier, "model_checking")
    vd = vd or Verdict(pid, ev)
    T = TIERS[tier]
    copia = vlib.build_repo()
    bins = vlib.build_harness(["vh_lib"])
    work = vlib.shm_dir(pid.lower())
    try:
        ppath = os.path.join(work, "paths.json")
        r = tlc("MC_Bisync", T["cfg"], workers=12, timeout=3000, xmx="12g", env_extra={"PATHS_OUT": ppath})
        ev.tlc(r)
        if r.violation:
            vd.nonconformance(f"TLC: Bisync invariant {r.violation} fails in the model ({T['cfg']}): " + " | ".join(x for x in r.trace if x.startswith("State"))[:600])
        pathlist = json.load(open(ppath))
        log(f"[{pid}] Bisync {T['cfg']}: {r.distinct} states, violation={r.violation}")
        model_states = r.distinct
        for variant in ("MC_Bisync_nostale.cfg", "MC_Bisync_nocollide.cfg"):
            r0 = tlc("MC_Bisync", variant, workers=8, timeout=900, want_payload=False)
            ev.extra[variant] = r0.violation
            if not r0.violation:
                raise vlib.ToolError(f"sanity: TLC no longer refutes the pinned commit's behaviour ({variant})")
        p = vlib.run_cmd([bins["vh_lib"], "gen-contents", str(T["C"])])
        contents = json.loads(p.stdout)
        uni = bg.Universe(pathlist, contents, [])
        if T["editable"] == "low":
            editable = [i for i, q in enumerate(uni.paths) if len(q) == 1 or (len(q) == 2 and q[1] == (1, 0))]
        else:
            editable = [i for i, q in enumerate(uni.paths) if len(q) == 1 or (len(q) == 2 and q[1][1] == 0)]
        blob = (pathlist, contents, editable)

        def prog(st, nn):
            log(f"[{pid}]   level {st['levels']}: {st['states']} states run, next frontier {nn}")

        edges, stats, trusted, blobs = bg.explore(copia, blob, vlib.seed(), os.path.join(work, "g"),
                                                  max_states=T["max_states"], alt_every=T["alt_every"], progress=prog)
        log(f"[{pid}] implementation graph: {stats}")
        ev.extra["implementation_graph"] = stats
        ev.extra["model_states"] = model_states
        # C07: concrete fault kinds
        rng = random.Random(vlib.seed())
        rng.shuffle(trusted)
        jobs = []
        for s in trusted[:T["fault_states"]]:
            for kind in bg.FAULT_KINDS:
                if kind == "trunc":
                    import zlib
                    n = len(zlib.decompress(blobs[s[3]]))
                    for cut in list(range(0, n, 64 if tier == "thorough" else 256)) + [n - 1]:
                        jobs.append((s, blobs[s[3]], "trunc", cut))
                elif kind in ("stale_bak", "stale_other_order"):
                    others = [b for e2, b in blobs.items() if e2 != s[3]]
                    for b in rng.sample(others, min(3, len(others))):
                        jobs.append((s, blobs[s[3]], kind, b))
                elif kind == "trailing":
                    for prm in range(6):
                        jobs.append((s, blobs[s[3]], kind, prm))
                elif kind in ("garbage", "wrong_shape"):
                    for prm in (0, 1):
                        jobs.append((s, blobs[s[3]], kind, prm))
                else:
                    jobs.append((s, blobs[s[3]], kind, 0))
        if pid != "C07":
            jobs = jobs[: max(200, len(jobs) // 10)]
        fedges = bg.inject_faults(copia, blob, vlib.seed(), os.path.join(work, "f"), jobs)
        ev.extra["fault_runs"] = len(fedges)
        all_edges = edges + fedges
        want = want_label or {"C02": "C02", "C06": "C06", "C07": "C07", "C15": "C15"}[pid]
        nonconf = validate_edges(pid, uni, contents, all_edges, T["tcfg"], work, "m", vd, want)
        # further universes (two base paths at once; three contents): model check, explore, validate
        for xi, U in enumerate(T.get("extra", [])):
            uni2, contents2, blob2, edges2, stats2, _, _ = explore_universe(pid, U, copia, bins, work, f"x{xi}", ev, vd)
            ev.extra.setdefault("extra_universes", []).append(dict(stats2, cfg=U["cfg"]))
            nonconf += validate_edges(pid, uni2, contents2, edges2, U["tcfg"], work, f"x{xi}", vd, want)
            all_edges = all_edges + edges2
        # seeded long histories over larger universes (Monitor only)
        import bisync_hist as bh
        hexes = {}
        for c, data in bh.CONTENT.items():
            pth = os.path.join(work, f"hc{c}")
            open(pth, "wb").write(data)
            hexes[vlib.run_cmd([bins["vh_lib"], "b3", pth]).stdout.decode().strip()] = c
        nh = 80 if tier == "quick" else 2500
        # one more version: a symbolic link (to a file outside both roots); bisync fingerprints its target string
        link_target = os.path.join(work, "link-target-file")
        open(link_target, "wb").write(b"behind the link\n")
        lt = os.path.join(work, "hclink")
        open(lt, "wb").write(link_target.encode())
        hexes[vlib.run_cmd([bins["vh_lib"], "b3", lt]).stdout.decode().strip()] = bh.LINK
        hjobs = [(vlib.seed() * 10007 + i, 24, hexes) for i in range(nh)]
        hjobs += [(900_000 + k, len(sc), hexes, sc) for k, sc in enumerate(bh.SCRIPTS)]             # scripted histories
        hrecs = bh.run_all(copia, os.path.join(work, "h"), hjobs, pairs=True, link_target=link_target)
        hpath = os.path.join(work, "hist.ndjson")
        hfiles = []
        for k in range(0, len(hrecs), 3000):
            pth = os.path.join(work, f"hist{k // 3000}.ndjson")
            with open(pth, "w") as f:
                for e in hrecs[k:k + 3000]:
                    e.setdefault("want_at", [])      # directed scenarios only: [path index, version] that must be at the path at the end
                    f.write(json.dumps({kk: v for kk, v in e.items() if kk not in ("names", "stderr", "seed", "step")}) + "\n")
            hfiles.append((pth, len(hrecs[k:k + 3000]), k))
        for pth, n, off in hfiles:
            rr = tlc("BisyncHistTrace", "BisyncHistTrace.cfg", workers=1, timeout=3000, env_extra={"TRACE": pth}, depth_first=True, xmx="3g")
            res = rr.payloads.get("RESULT", [])
            if not res or res[0]["n"] != n:
                raise vlib.ToolError("BisyncHistTrace did not consume " + pth + rr.raw_tail[-300:])
            for (ln, q) in res[0]["bad"]:
                if q != want:
                    continue
                e = hrecs[off + ln - 1]
                show = lambda arr: {nm: c for nm, c in zip(e["names"], arr) if c}
                vd.violation(f"hist-{e['seed']}-{e['step']}", f"[{q}] history seed={e['seed']} run at step {e['step']}: A={show(e['A'])} B={show(e['B'])} "
                             f"archive={'trusted ' + str(show(e['E'])) if e['tr'] else 'untrusted'} last={show(e['last'])} --bisync(exit {e['exit']})--> "
                             f"A={show(e['A2'])} B={show(e['B2'])} archive={show(e['E2']) if e['tr2'] else 'untrusted'} {e['stderr']}",
                             {"kind": "bisync-history", "record": e})
        ev.extra["long_histories"] = {"histories": nh, "runs": len(hrecs), "aborted_runs": sum(1 for e in hrecs if not e["completed"]),
                                      "runs_with_conflict_copies": sum(1 for e in hrecs if any(".conflict-" in n for n in e["names"]))}
        ev.add(evaluations=len(hrecs), traces_validated_against_impl=len(hrecs))
        nrun = sum(1 for e in all_edges if e["ev"] == "run")
        nontrivial = sum(1 for e in all_edges if e["ev"] == "run" and e["nplan"] > 0)
        ev.extra["conformance"] = {"edges": len(all_edges), "mismatched": nonconf}
        ev.add(evaluations=len(all_edges), distinct_nontrivial=nontrivial, traces_validated_against_impl=len(all_edges),
               rule="BFS of the real `copia bisync` from the empty state over 1 base path, its conflict-copy names (depth <= 2, "
                    "suffix -1), contents {1,2}; user writes/deletes on the editable paths and archive faults applied abstractly; "
                    "one real run + dry run per distinct abstract state, a seeded share re-run with new mtimes and swapped roots; "
                    "plus concrete archive faults on reachable trusted states. non-trivial = the run planned >= 1 action.",
               exhaustive=not stats["truncated"])
        for e in [x for x in all_edges if x["ev"] == "run" and x["nconf"] > 0][:2] + [x for x in fedges][:1]:
            ev.sample({k: e[k] for k in ("ev", "s", "t", "exit", "nplan", "nconf") if k in e})
        ev.assumptions += ["archive bytes restored exactly as the real code wrote them, except the 64-hex pair id substituted per worker directory",
                           "HOME, HOSTNAME pinned; contents chosen so that id order = BLAKE3 order, content 1's hash has a leading 0 nibble"]
    except bg.NoArchive as e:
        # the harness pre-loads archives under the name a real run chose; a completed run that records nothing is
        # itself C06's "the recorded common state equals exactly that tree" failing
        if (want_label or pid) == "C06":
            vd.violation("no-archive-recorded", str(e), {"kind": "bisync-bootstrap", "what": str(e)})
        else:
            raise vlib.ToolError("bisync records no common state, the graph cannot be explored: " + str(e))
    finally:
        shutil.rmtree(work, ignore_errors=True)
    return vd.finish() if finish else 0


def validate_edges(pid, uni, contents, all_edges, tcfg, work, tag, vd, want):
    """TLC validation (BisyncTrace) of run / dry-run edges of one universe; returns the number of non-conformant edges"""
    shard = 4000
    files = []
    for k in range(0, len(all_edges), shard):
        path = os.path.join(work, f"edges-{tag}-{k // shard}.ndjson")
        with open(path, "w") as f:
            for e in all_edges[k:k + shard]:
                f.write(json.dumps(e) + "\n")
        files.append((path, len(all_edges[k:k + shard]), k))

    def validate(fn):
        path, n, off = fn
        rr = tlc("BisyncTrace", tcfg, workers=1, timeout=3000, env_extra={"TRACE": path}, depth_first=True, xmx="3g")
        res = rr.payloads.get("RESULT", [])
        if not res or res[0]["n"] != n:
            raise vlib.ToolError("BisyncTrace did not consume " + path + rr.raw_tail[-300:])
        return off, res[0]

    nonconf = 0
    with ThreadPoolExecutor(max_workers=12) as ex:
        for off, res in ex.map(validate, files):
            for (ln, q) in res["bad"]:
                if q != want:
                    continue
                e = all_edges[off + ln - 1]
                key = f"{tag}-{e['ev']}-" + "".join(map(str, e["s"]["A"])) + "-" + "".join(map(str, e["s"]["B"])) + "-" + \
                      ("T" if e["s"]["tr"] else "F") + "".join(map(str, e["s"]["E"])) + (("-" + e.get("fault", "")) if e.get("fault") else "")
                vd.violation(key, describe(uni, e, q), {"kind": "bisync-edge", "edge": e, "names": uni.names,
                                                        "contents": contents, "how": "materialise s (files named by 'names', contents by id), run `copia bisync A B` with HOSTNAME=hh"})
            for ln in res["nonconf"]:
                nonconf += 1
                if nonconf <= 3:
                    e = all_edges[off + ln - 1]
                    vd.nonconformance("run edge differs from Bisync!RunResult: " + describe(uni, e, "conform"))
    for e in all_edges:
        if e["ev"] == "run" and e["alien"]:
            vd.nonconformance(f"run produced a file / entry outside the universe: {e['alien'][:2]} from {describe(uni, e, '')}")
            if pid == "C06":
                vd.violation("alien-" + str(e["alien"][0][0]), "a run left a file whose name is not <path>.conflict-<host>-<12 hex>[-k] of any known content: "
                             + str(e["alien"][:2]), {"kind": "bisync-edge", "edge": e, "names": uni.names, "contents": contents})
            break
    return nonconf


def describe(uni, e, q):
    def tree(arr):
        return "{" + ", ".join(f"{uni.names[i]}={c}" for i, c in enumerate(arr) if c) + "}"
    s = e["s"]
    out = f"[{q}] A={tree(s['A'])} B={tree(s['B'])} archive={'trusted ' + tree(s['E']) if s['tr'] else 'untrusted'} last={tree(s['last'])}"
    if e.get("fault"):
        out += f" fault={e['fault']}({e.get('param')})"
    if e["ev"] == "run":
        t = e["t"]
        out += f"  --bisync(exit {e['exit']}, {e['nplan']} actions, {e['nconf']} conflicts)-->  A={tree(t['A'])} B={tree(t['B'])} archive={tree(t['E']) if t['tr'] else 'untrusted'}"
        if not e.get("swap_ok", True):
            out += " [differs when roots are named in the other order]"
        if not e.get("mtime_ok", True):
            out += " [differs under other mtimes]"
    else:
        out += f"  --dry-run(exit {e['exit']})--> unchanged={e['unchanged']} printed={e['plan']}"
    return out


def replay(path):
    d = json.load(open(path))
    print(d.get("what"))
    print(json.dumps(d.get("edge"), indent=1)[:3000])
    return 0
