"""C20 — codecs round-trip and reject malformed input without crashing.

1. TLC, Codec.tla: header law Decode(Encode(h)) = h with COPA / version 1 / LE length (ASSUME, on boundary numbers);
   reader machine ReadHeader -> Validate -> ReadPayload -> DecodeBody over every combination of header field classes x
   payload/length classes x cut points x 7 message kinds, with the outcome class of each; wrong magic / version / type /
   oversize length is never Ok.
2. spec -> code: each case rendered to bytes (payloads from the real encoder) and run through Codec::read_message,
   FrameHeader::decode, Message::decode under catch_unwind and a counting allocator (16 MiB bound).
3. code -> spec: seeded messages of all kinds through write_message/read_message (several per stream), the CLI's
   signature/delta files, and `copia delta` / `copia patch` on every single-field corruption of valid files under an
   address-space limit (1 GiB) and a timeout; CodecTrace.tla decides every record.
"""
import json
import os
import shutil

import vlib
from vlib import Evidence, Verdict, tlc, log


def run(tier):
    pid = "C20"
    ev = Evidence(pid, tier, "model_checking")
    vd = Verdict(pid, ev)
    copia = vlib.build_repo()
    bins = vlib.build_harness(["vh_lib"])
    work = vlib.shm_dir("c20")
    try:
        r = tlc("Codec", "MC_Codec.cfg", workers=8, timeout=1500)
        ev.tlc(r)
        if r.violation:
            vd.nonconformance(f"TLC: Codec invariant {r.violation} fails")
        cases = r.payloads.get("CASE", [])
        log(f"[C20] Codec: {r.distinct} states, {len(cases)} cases")
        cpath, opath = os.path.join(work, "cases.ndjson"), os.path.join(work, "out.ndjson")
        with open(cpath, "w") as f:
            for c in cases:
                f.write(json.dumps(c) + "\n")
        reps = 1 if tier == "quick" else 4
        for rep in range(reps):
            p = vlib.run_cmd([bins["vh_lib"], "codec-cases", cpath, opath, str(vlib.seed() + rep)], timeout=3000)
            if p.returncode != 0:
                cur = opath + ".cur"
                if (p.returncode < 0 or p.returncode == 134) and os.path.exists(cur):
                    d = json.load(open(cur))
                    c = d["c"]
                    vd.violation(f"abort-{c['kind']}-inner{d['inner_len_index']}",
                                 f"decoding a well-framed {c['kind']} message whose inner length prefix is absurd killed the process "
                                 f"(status {p.returncode}): " + p.stderr.decode()[-200:].strip(),
                                 {"kind": "codec-abort", "detail": d})
                    return vd.finish()
                vlib.harness_died(vd, "vh_lib codec-cases", p)
                return vd.finish()
            nonconf = 0
            for line in open(opath):
                d = json.loads(line)
                if d["kind"] == "summary":
                    summ = d
                elif d["kind"] == "nonconf":
                    nonconf += 1
                    if nonconf <= 3:
                        vd.nonconformance(f"case {d['case']}: {d['what']}")
                else:
                    c = d["input"]["c"]
                    vd.violation(f"case-{c['magic']}-v{c['ver']}-t{c['type']}-{c['len']}-{c['cut']}-{c['kind']}", d["what"],
                                 {"kind": "codec-case", "detail": d})
            ev.add(evaluations=summ["evaluations"], traces_validated_against_impl=summ["cases"])
        ev.add(distinct_nontrivial=summ["nontrivial"])
        ev.sample(cases[len(cases) // 2])

        n = 3000 if tier == "quick" else 400000
        tpath = os.path.join(work, "rand.ndjson")
        p = vlib.run_cmd([bins["vh_lib"], "codec-random", str(n), tpath, str(vlib.seed()), copia, os.path.join(work, "cli")], timeout=3000)
        if p.returncode != 0:
            vlib.harness_died(vd, "vh_lib codec-random", p)
            return vd.finish()
        r = tlc("CodecTrace", "CodecTrace.cfg", workers=1, timeout=1500, env_extra={"TRACE": tpath}, depth_first=True)
        res = r.payloads.get("RESULT", [])
        lines = open(tpath).read().splitlines()
        if not res or res[0]["n"] != len(lines):
            raise vlib.ToolError("CodecTrace did not consume the whole trace")
        for b in res[0]["bad"]:
            rec = json.loads(lines[b - 1])
            key = f"{rec['ev']}-" + (rec.get("corruption") or rec.get("kind") or rec.get("what") or str(b))
            vd.violation(key, f"{rec['ev']} record violates C20: {lines[b-1][:300]}", {"kind": "codec-random", "record": rec})
        for b in res[0]["nonconf"][:5]:
            vd.nonconformance(f"CLI outcome differs from the predicted class: {lines[b-1][:200]}")
        ncli = sum(1 for x in lines if '"ev":"cli"' in x)
        ev.add(evaluations=len(lines), traces_validated_against_impl=len(lines))
        ev.extra["cli_corruption_cases"] = ncli
        ev.sample(json.loads(lines[0]))
        ev.sample(json.loads([x for x in lines if '"ev":"cli"' in x][5]))
        ev.add(rule="TLC enumerates 5 magic x 3 version x 10 type x 7 length/payload classes x 4 cut points x 7 kinds; every case is rendered "
                    "with a real encoded payload and decoded by the real reader. non-trivial = predicted outcome is an error. Plus seeded "
                    "round trips and ~170 single-field corruptions of CLI files.", exhaustive=True)
        ev.assumptions += ["memory clause decided by a counting global allocator in the harness and RLIMIT_AS = 1 GiB for the CLI",
                           "payload fidelity is the identity law only (DESIGN section 11)"]
    finally:
        shutil.rmtree(work, ignore_errors=True)
    return vd.finish()


def replay(path):
    print(json.dumps(json.load(open(path)), indent=1)[:4000])
    return 0
