import delta_common


def run(tier):
    return delta_common.run("C01", tier)


def replay(path):
    return delta_common.replay(path)
