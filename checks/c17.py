"""C17 — rolling checksums equal their definition after any operations.

1. TLC, Rolling.tla: both register machines (plain with its register width W as a parameter, fast
   with lazy reduction every K ops) against the definition, exhaustively at small moduli where every
   borrow / wrap case is reachable.  The "orig" variant (formulas of the pinned commit) is kept as a
   regression: TLC must still find its violation (the model can see the defect class).
2. spec -> code: every maximal behaviour TLC enumerated is replayed on both real types, literally and
   with each byte/op replicated 64..21845 times so the sums cross 65521, 2^16*255 and 2^32.
3. code -> spec: long seeded runs (windows 1..65536, > 5000 and > 10000 slides, 0x00/0xFF/ramp/high/
   random data, pushes then rolls, re-construction mid-run).
   Every recorded operation is validated by TLC (RollingTrace.tla) at M = 65521.
"""
import json
import os
import shutil
from concurrent.futures import ThreadPoolExecutor

import vlib
from vlib import Evidence, Verdict, tlc, log


def run(tier):
    ev = Evidence("C17", tier, "model_checking")
    vd = Verdict("C17", ev)
    bins = vlib.build_harness(["vh_lib"])
    work = vlib.shm_dir("c17")
    try:
        cfgs = ["MC_Rolling_fixed.cfg"] + (["MC_Rolling_fixed_big.cfg", "MC_Rolling_fixed_w0.cfg"] if tier == "thorough" else [])
        cases = []
        for cfg in cfgs:
            r = tlc("Rolling", cfg, workers=8, timeout=1800)
            ev.tlc(r)
            if r.violation:
                vd.nonconformance(f"TLC: invariant {r.violation} of the register-machine model fails in {cfg} "
                                  f"(model of the current formulas is wrong or the formulas are): {' | '.join(r.trace[:8])}")
            if cfg == "MC_Rolling_fixed.cfg":
                cases = r.payloads.get("CASE", [])
            log(f"[c17] {cfg}: {r.distinct} states, violation={r.violation}")
        if tier == "thorough":
            # true 64-bit magnitudes (beyond TLC's integers): the lazy-modulo registers never reach 2^64 between normalisations
            obligations = [("Init", "IndInv", 0), ("IndInit", "IndInv", 1), ("IndInit", "NoOverflow", 0)]
            res = [vlib.apalache("FastBound", i, v, n) for (i, v, n) in obligations]
            ev.extra["apalache_fastbound"] = {"obligations": [f"{i} => {v} (length {n})" for (i, v, n) in obligations], "discharged": res}
            if not all(res):
                vd.nonconformance(f"Apalache: inductive bound for the lazy-modulo accumulator not established: {res}")
        r0 = tlc("Rolling", "MC_Rolling_orig.cfg", workers=4, timeout=600, want_payload=False)
        ev.extra["orig_variant_violation_found"] = r0.violation
        if not r0.violation:
            raise vlib.ToolError("sanity: TLC no longer finds the violation of the 'orig' (pinned-commit) formulas")
        cpath = os.path.join(work, "cases.ndjson")
        with open(cpath, "w") as f:
            for c in cases:
                f.write(json.dumps(c) + "\n")
        p = vlib.run_cmd([bins["vh_lib"], "rolling", cpath, os.path.join(work, "t"), str(vlib.seed()), tier], timeout=1800)
        if p.returncode != 0:
            vlib.harness_died(vd, "vh_lib rolling", p)
            return vd.finish()
        summ = json.loads(p.stdout.decode().strip().splitlines()[-1])
        log(f"[c17] recorded {summ['events']} events in {summ['runs']} runs, {len(summ['files'])} shards")

        def validate(fn):
            path, n = fn
            r = tlc("RollingTrace", "RollingTrace.cfg", workers=1, timeout=1500, env_extra={"TRACE": path},
                    depth_first=True, xmx="3g")
            res = r.payloads.get("RESULT", [])
            if r.violation:
                return path, n, None, f"spec self-audit {r.violation} failed"
            if not res or res[0]["n"] != n:
                return path, n, None, "trace not consumed"
            return path, n, res[0]["bad"], None

        with ThreadPoolExecutor(max_workers=8) as ex:
            results = list(ex.map(validate, summ["files"]))
        bad_total = 0
        for path, n, bad, err in results:
            if err:
                raise vlib.ToolError(f"RollingTrace on {path}: {err}")
            ev.add(traces_validated_against_impl=n)
            if bad:
                bad_total += len(bad)
                lines = open(path).read().splitlines()
                # report the first bad event of each run (a run starts at a data line)
                reported = 0
                last_data = None
                seen_runs = set()
                bset = set(bad)
                for i, line in enumerate(lines, 1):
                    if line.startswith('{"bytes"') or '"ev":"data"' in line[:40] or line.endswith('"ev":"data"}'):
                        last_data = i
                    if i in bset and last_data not in seen_runs:
                        seen_runs.add(last_data)
                        if reported < 5:
                            d = json.loads(lines[last_data - 1])
                            ops = [json.loads(x) for x in lines[last_data:i]]
                            doc = {"kind": "rolling-run", "data_len": len(d["bytes"]),
                                   "data_head": d["bytes"][:64], "data": d["bytes"] if len(d["bytes"]) <= 4096 else None,
                                   "ops_until_failure": [o["ev"] for o in ops][-50:], "n_ops": len(ops),
                                   "failing_event": ops[-1], "first_event": ops[0]}
                            vd.violation(f"run-{os.path.basename(path)}-{last_data}",
                                         f"after {len(ops)} operation(s) the reported digest/components differ from the definition "
                                         f"(event {ops[-1]})", doc)
                            reported += 1
        ev.extra["bad_events"] = bad_total
        ev.add(evaluations=summ["events"], distinct_nontrivial=summ["runs"],
               rule="TLC enumerates every op sequence (new/push/roll) of length <= MaxOps over windows <= MaxWin at M=7, W=16, K=2; "
                    "each maximal behaviour is replayed on RollingChecksum and FastRollingChecksum under byte maps and "
                    "replication factors; plus seeded long runs at real window sizes. distinct_nontrivial = number of distinct "
                    "recorded runs (each has >= 1 operation after construction).",
               exhaustive=False)
        ev.sample(cases[len(cases) // 2] if cases else None)
        ev.sample({"summary": summ})
        ev.assumptions += ["observation is through the public API (digest, len, sum_a, sum_b)",
                           "the exhaustive TLC result is for the small constants; real constants are reached by validated recorded runs"]
    finally:
        shutil.rmtree(work, ignore_errors=True)
    return vd.finish()


def replay(path):
    d = json.load(open(path))
    print(json.dumps({k: v for k, v in d.items() if k != "data"}, indent=1)[:3000])
    return 0
