"""C15 — excludes protect, deletes are opt-in, dry runs touch nothing.

Parts (one evidence file):
 A. pattern semantics: Glob.tla (GlobAlg = Match, ExcludedAlg = ExcludedDef) exhaustively + replay into the real
    glob_match / is_excluded + seeded larger cases validated by TLC (shared with C19); PlanSpec invariants
    "excluded paths are neither transferred nor deleted", "no --delete => empty delete set".
 B. bisync --dry-run on every state of the implementation graph (shared with C02): trees, mtimes and archive
    byte-identical before/after, printed actions = the plan (BisyncTrace!DryFailed).
 C. sync -r on the one-way graph (shared with C04): excluded paths untouched, nothing removed without --delete,
    --dry-run changes nothing and prints exactly the plan the real run executes.
"""
import vlib
from vlib import Evidence, Verdict

import bisync_common
import c19


def run(tier):
    ev = Evidence("C15", tier, "model_checking")
    vd = Verdict("C15", ev)
    c19.run(tier, "C15", ev, vd, finish=False)
    bisync_common.run("C15", tier, ev, vd, finish=False)
    try:
        import oneway_common
        oneway_common.run("C15", tier, ev, vd, finish=False)
    except ImportError:
        ev.extra["one_way_part"] = "not built yet"
    ev.cov["rule"] = ("A: all patterns x texts over {a,b,*,?,.,/} to length 3/4 and all paths of the Rels universe on the real matcher; "
                      "B: one dry run per distinct state of the bisync implementation graph (byte+mtime snapshot before/after, printed plan "
                      "vs spec plan); C: one-way graph edges with excludes / delete / dry-run flags. non-trivial counts as in the parts.")
    return vd.finish()


def replay(path):
    return c19.replay(path)
