"""C12 — the hub's wire input is handled totally, boundedly and in step.

1. TLC, HubSession.tla: every session of <= 3 pieces over 4 prologue classes x 21 piece classes (well-framed requests
   incl. error-reply ones; oversize prefixes 2^20+1 and 2^32-1, undecodable / unknown-variant / zero-length bodies,
   5000-deep nesting, inner length 2^40, end of input inside a prefix / a body / a Put's content, bytes after Bye):
   predicted replies, exit status, final tree; invariants Total, NoEffectBeforeRequest.
2. Binding E: sessions rendered to bytes and fed to a real `copia serve` under RLIMIT_AS and a timeout (oversize /
   huge / deep pieces additionally under strace: no anonymous mapping above the 1 MiB bound that a calibration session
   does not also make); each session also closed at a random cut point, and with random byte mutations.
3. TLC (HubSessionTrace.tla) decides every record: Conform (= the model's prediction) and Monitor.
"""
import json
import os
import random
import shutil
from concurrent.futures import ThreadPoolExecutor

import vlib
import hub_runs as hr
import hub_session as hs
from vlib import Evidence, Verdict, tlc, log


def run(tier):
    pid = "C12"
    ev = Evidence(pid, tier, "model_checking")
    vd = Verdict(pid, ev)
    copia = vlib.build_repo()
    bins = vlib.build_harness(["vh_lib"])
    work = vlib.shm_dir("c12")
    try:
        r = tlc("HubSession", "MC_HubSession.cfg", workers=8, timeout=1500, xmx="6g")
        ev.tlc(r)
        if r.violation:
            vd.nonconformance(f"TLC: HubSession invariant {r.violation} fails")
        cases = r.payloads.get("CASE", [])
        rng = random.Random(vlib.seed())
        short = [c for c in cases if len(c["pieces"]) <= 2]
        long_ = [c for c in cases if len(c["pieces"]) > 2]
        rng.shuffle(long_)
        chosen = short + long_[: (2500 if tier == "quick" else len(long_))]
        log(f"[C12] HubSession: {r.distinct} states, {len(cases)} sessions, {len(chosen)} to run")
        hashes = hr.compute_hashes(bins["vh_lib"], work)
        cal = hs.calibrate(copia, os.path.join(work, "cal"), hashes)
        jobs = [(c, "session", vlib.seed() + i) for i, c in enumerate(chosen)]
        okp = [c for c in chosen if c["pro"] == "ok" and c["pieces"]]
        for i, c in enumerate(okp[: (1500 if tier == "quick" else 20000)]):
            jobs.append((c, "cut", vlib.seed() * 3 + i))
            jobs.append((c, "mutant", vlib.seed() * 5 + i))
        # directed: an effectful request padded with filler, the input closed inside the filler (with / without Hello)
        jobs += [(None, "slackcut", k) for k in range(12 * (3 if tier == "quick" else 20))]
        recs = hs.run_cases(copia, os.path.join(work, "s"), hashes, cal, jobs)
        files = []
        shard = 2500
        for i in range(0, len(recs), shard):
            path = os.path.join(work, f"sess{i // shard}.ndjson")
            with open(path, "w") as f:
                for e in recs[i:i + shard]:
                    f.write(json.dumps({k: v for k, v in e.items() if k not in ("stderr",)}) + "\n")
            files.append((path, len(recs[i:i + shard]), i))

        def validate(fn):
            path, n, off = fn
            rr = tlc("HubSessionTrace", "HubSessionTrace.cfg", workers=1, timeout=2500, env_extra={"TRACE": path}, depth_first=True)
            res = rr.payloads.get("RESULT", [])
            if not res or res[0]["n"] != n:
                raise vlib.ToolError("HubSessionTrace did not consume " + path + rr.raw_tail[-300:])
            return off, res[0]

        nonconf = 0
        with ThreadPoolExecutor(max_workers=6) as ex:
            for off, res in ex.map(validate, files):
                for (ln, q) in res["bad"]:
                    e = recs[off + ln - 1]
                    vd.violation(f"{e['kind']}-{e['pro']}-" + "-".join(e["pieces"]) + f"-{q}",
                                 f"{e['kind']} prologue={e['pro']} pieces={e['pieces']} ({e['nbytes']} bytes): {q}; exit={e['exit']} signaled={e['signaled']} "
                                 f"timed_out={e['timed_out']} replies={e['replies']} (model: {e['want_replies']}, exit {e['want_exit']}) tree f={e['f']} conf={e['conf']} {e['stderr'][-120:]}",
                                 {"kind": "hub-session", "record": e})
                for ln in res["nonconf"]:
                    nonconf += 1
                    if nonconf <= 3:
                        e = recs[off + ln - 1]
                        vd.nonconformance(f"session prologue={e['pro']} pieces={e['pieces']}: observed replies={e['replies']} exit={e['exit']} f={e['f']} conf={e['conf']}; "
                                          f"model replies={e['want_replies']} exit={e['want_exit']} f={e['want_f']} conf={e['want_conf']}")
        ev.extra["conformance"] = {"sessions": sum(1 for e in recs if e["kind"] == "session"), "mismatched": nonconf}
        ev.add(evaluations=len(recs), traces_validated_against_impl=len(recs),
               distinct_nontrivial=sum(1 for e in recs if e["kind"] == "session" and (e["want_exit"] == 1 or any(str(x).startswith("Error") for x in e["want_replies"]))),
               rule="sessions enumerated by TLC (all of <= 2 pieces, a seeded share of the 3-piece ones in quick / all in thorough), each run "
                    "in full; sessions with a valid prologue additionally closed at a random cut point and randomly mutated. non-trivial "
                    "= the model predicts an error exit or an error reply.", exhaustive=(tier == "thorough"))
        ev.sample({k: recs[len(short) // 2][k] for k in ("kind", "pro", "pieces", "replies", "exit", "f", "conf")})
        ev.assumptions += ["memory clause observed under RLIMIT_AS = 600 MB and, for oversize / huge / deep pieces, by strace of anonymous mappings against a calibration session",
                           "cut / mutated sessions are Monitor-only"]
    finally:
        shutil.rmtree(work, ignore_errors=True)
    return vd.finish()


def replay(path):
    print(json.dumps(json.load(open(path)), indent=1)[:3000])
    return 0
