"""Shared pipeline for C03 (linearizable CAS) and C10 (only complete, verified content).

1. TLC, Hub.tla: two servers, request programs over Put / Delete / Get (+ kill), at the granularity of the libc calls
   on shared objects; refinement of HubAtomic checked step by step (flag set `bad`), Complete, MutualExclusion.
   The pinned commit's parameters (shared staging name; Get with three looks) must be refuted.
2. spec -> code: HubSched.tla emits every complete behaviour's server order; the controller replays it on real
   `copia serve` processes (LD_PRELOAD shim, schedule mode), snapshotting the tree after every visible step.
   Conform: final tree = the behaviour's final state.
3. code -> spec: the controller's own seeded search (random + preemption-style orders, kills, 3 servers, List,
   bad / short Puts).
4. TLC (HubLinTrace.tla) searches a linearization of HubAtomic for every recorded history (C03); every snapshot must
   show only complete known contents at non-staging names and Get bodies must match their headers (C10).
"""
import json
import os
import random
import shutil
from concurrent.futures import ThreadPoolExecutor

import vlib
import hub_runs as hr
from vlib import Evidence, Verdict, tlc, log

MODEL_PROGS = ["putput", "putget", "putdel", "badput", "create", "badsame", "writeback", "delwb"]


def run(pid, tier, ev=None, vd=None, finish=True):
    ev = ev or Evidence(pid, tier, "model_checking")
    vd = vd or Verdict(pid, ev)
    copia = vlib.build_repo()
    shim = vlib.build_shim()
    bins = vlib.build_harness(["vh_lib"])
    work = vlib.shm_dir(pid.lower() + "hub")
    rng = random.Random(vlib.seed())
    try:
        for prog in MODEL_PROGS + ["casrace3"]:
            r = tlc("MC_Hub", f"MC_Hub_{prog}.cfg", workers=4, timeout=900, want_payload=False)
            ev.tlc(r)
            if r.violation:
                vd.nonconformance(f"TLC: Hub invariant {r.violation} fails for program {prog}")
        for variant, want in (("orig_tmp", "Clean"), ("orig_get", "Clean")):
            r0 = tlc("MC_Hub", f"MC_Hub_{variant}.cfg", workers=4, timeout=600, want_payload=False)
            ev.extra[f"variant_{variant}_refuted"] = r0.violation
            if not r0.violation:
                raise vlib.ToolError(f"sanity: TLC no longer refutes the pinned commit's hub behaviour ({variant})")
        hashes = hr.compute_hashes(bins["vh_lib"], work)
        jobs = []
        per_prog = 120 if tier == "quick" else 100000
        for prog in MODEL_PROGS + (["casrace3"] if tier == "thorough" else []):       # three servers: 284 342 behaviours, thorough only
            r = tlc("HubSched", f"MC_HubSched_{prog}.cfg", workers=8, timeout=3000, xmx="12g")
            scheds = r.payloads.get("SCHED", [])
            rng.shuffle(scheds)
            for sc in scheds[:(per_prog if prog != "casrace3" else 4000)]:
                jobs.append({"prog": prog, "program": hr.PROGRAMS[prog], "order": [x[0] for x in sc["hist"]],
                             "labels": sc["hist"], "want_final": sc["final"], "want_replies": sc["replies"], "src": "tlc"})
            log(f"[{pid}] program {prog}: {len(scheds)} model behaviours, {min(len(scheds), per_prog)} replayed")
        if tier == "quick":
            # three servers in the quick tier too: TLC in simulation mode draws behaviours of casrace3 (seeded), each one replayed
            r = tlc("HubSched", "MC_HubSched_casrace3.cfg", workers=4, timeout=600, simulate="num=80",
                    extra_args=["-depth", "200", "-seed", str(vlib.seed())])
            seen, scheds = set(), []
            for sc in r.payloads.get("SCHED", []):
                k = json.dumps(sc["hist"])
                if k not in seen:
                    seen.add(k)
                    scheds.append(sc)
            for sc in scheds[:300]:
                jobs.append({"prog": "casrace3", "program": hr.PROGRAMS["casrace3"], "order": [x[0] for x in sc["hist"]],
                             "labels": sc["hist"], "want_final": sc["final"], "want_replies": sc["replies"], "src": "tlc"})
            log(f"[{pid}] program casrace3: {len(scheds)} simulated model behaviours, {min(len(scheds), 300)} replayed")
            if not scheds:
                raise vlib.ToolError("TLC simulation of casrace3 produced no behaviour")
        # kills from the model
        r = tlc("HubSched", "MC_HubSched_putput_kill.cfg", workers=8, timeout=1500, xmx="8g")
        ks = [s for s in r.payloads.get("SCHED", []) if any(x[1] == "kill" for x in s["hist"])]
        rng.shuffle(ks)
        for sc in ks[:(150 if tier == "quick" else 5000)]:
            hist = sc["hist"]
            ki = next(i for i, x in enumerate(hist) if x[1] == "kill")
            victim = hist[ki][0]
            steps_before = sum(1 for x in hist[:ki] if x[0] == victim)
            if len(jobs) % 2:
                # by step count (the kill lands wherever the victim's n-th real call is) ...
                jobs.append({"prog": "putput", "program": hr.PROGRAMS["putput"], "order": [x[0] for x in hist if x[1] != "kill"],
                             "kill": (victim, steps_before), "src": "tlc-kill"})
            else:
                # ... or by action label: the victim dies exactly where the behaviour kills it, and the final tree is the model's
                jobs.append({"prog": "putput", "program": hr.PROGRAMS["putput"], "order": [x[0] for x in hist if x[1] != "kill"],
                             "labels": hist, "want_final": sc["final"], "src": "tlc-kill"})
        # the controller's own search
        nrand = 25 if tier == "quick" else 1500
        for prog, program in list(hr.EXTRA.items()) + list(hr.PROGRAMS.items()):
            for k in range(nrand):
                job = {"prog": prog, "program": program, "policy": "random", "seed": vlib.seed() * 1000 + k, "src": "search"}
                if k % 5 == 4:
                    job["kill"] = (rng.randint(1, max(program)), rng.randint(0, 9))
                jobs.append(job)
        # seeded request programs (any expected / new content combination), random and strictly sequential orders
        for k in range(60 if tier == "quick" else 1500):
            prg = random.Random(vlib.seed() * 7919 + k)
            program = hr.random_program(prg)
            init = prg.choice([{"f": "c1"}, {"f": "c1"}, {"f": "c1", "g": "c2"}, {}])
            sids = sorted(program)
            prg.shuffle(sids)
            for pol in ("random", "seq"):
                job = {"prog": f"gen{k}", "program": program, "policy": "random", "seed": vlib.seed() * 31 + k, "init": init, "src": "search"}
                if pol == "seq":
                    job["order"] = [sid for sid in sids for _ in range(60)]
                jobs.append(job)
        # a Put aimed at a directory (it cannot become the live content, so it must not be acknowledged as committed)
        for k in range(4):
            jobs.append({"prog": "putdir", "program": {1: [("put", "d", None, "c2"), ("get", "d/k")], 2: [("put", "f", "c1", "c3"), ("get", "d")]},
                         "init": {"f": "c1", "d/k": "c1"}, "policy": "random", "seed": vlib.seed() * 17 + k, "src": "corpus"})
        # a Put to a path UNDER a file (it cannot be staged): an error reply for that request, the session goes on
        for k in range(4):
            jobs.append({"prog": "putunder", "program": {1: [("put", "f/x", None, "c2"), ("get", "f"), ("put", "g", None, "c2")], 2: [("put", "f", "c1", "c3"), ("get", "f/x")]},
                         "init": {"f": "c1", "d/k": "c1"}, "policy": "random", "seed": vlib.seed() * 19 + k, "src": "corpus"})
        # a client writes, as an ordinary path, to the name a conflict-copy of c3 on f would take; a later losing Put(f := c3)
        # must not replace what was acknowledged there
        for k, order in enumerate([[1] * 60 + [2] * 60, [2] * 60 + [1] * 60, None, None]):
            job = {"prog": "confname", "program": {1: [("put", "f#c3", None, "c2"), ("get", "f#c3")], 2: [("put", "f", None, "c3"), ("get", "f#c3")]},
                   "init": {"f": "c1"}, "policy": "random", "seed": vlib.seed() * 23 + k, "src": "corpus"}
            if order:
                job["order"] = order
            jobs.append(job)
        # a fetch while the file is replaced by the EMPTY version and then by another one (a commit that empties the live file in
        # place instead of renaming over it cuts the fetch short)
        for k in range(12 if tier == "quick" else 300):
            jobs.append({"prog": "getempty", "program": {1: [("get", "f"), ("get", "f")], 2: [("put", "f", "c2", "c0"), ("put", "f", "c0", "c1")]},
                         "init": {"f": "c2"}, "policy": "random", "seed": vlib.seed() * 29 + k, "src": "search", "allow_empty": True, "reads_visible": True})
        # a write of the EMPTY version that loses its compare-and-swap: its (zero-byte) conflict-copy has to exist
        for k in range(4 if tier == "quick" else 60):
            jobs.append({"prog": "emptyloser", "program": {1: [("put", "f", None, "c0"), ("get", "f")], 2: [("put", "f", "c1", "c2")]},
                         "init": {"f": "c1"}, "policy": "random", "seed": vlib.seed() * 37 + k, "src": "search", "allow_empty": True})
        # a file some client owns at the name of a conflict-copy, and a commit of that very content at the plain path: the file stays
        for k in range(3):
            jobs.append({"prog": "confkeep", "program": {1: [("put", "f", "c1", "c2"), ("get", "f#c2")], 2: [("get", "f#c2"), ("put", "g", None, "c2")]},
                         "init": {"f": "c1", "f#c2": "c2"}, "policy": "random", "seed": vlib.seed() * 41 + k, "src": "corpus"})
        # a refused Put into a directory that does not exist yet, while another server commits into that directory
        for k in range(12 if tier == "quick" else 200):
            jobs.append({"prog": "baddir", "program": {1: [("badput", "n/a", None, "c2"), ("get", "n/b")], 2: [("put", "n/b", None, "c3"), ("get", "n/b")]},
                         "init": {"f": "c1"}, "policy": "random", "seed": vlib.seed() * 43 + k, "src": "search"})
        # the hub's own lock file addressed by a client as an ordinary path (it starts empty = "c0"): whatever the hub
        # answers, the compare-and-swap of the OTHER clients must stay linearizable (schedule as in lock_identity)
        jobs.append({"prog": "lockfile", "program": {1: [("put", ".copia/commit.lock", "c0", "c2")], 2: [("put", "f", "c1", "c2")], 3: [("put", "f", "c1", "c3")]},
                     "init": {"f": "c1", ".copia/commit.lock": "c0"}, "track_lock": True, "policy": "lock_identity", "src": "corpus"})
        # two accepted spellings of one file (the guard lets "./f", "d//k", "d/./k" through): they are ONE file to the CAS
        alias = {"alias_putput": {1: [("put", "f", "c1", "c2")], 2: [("put", "./f", "c1", "c3")]},
                 "alias_nested": {1: [("put", "d/k", "c1", "c2"), ("get", "d//k")], 2: [("put", "d/./k", "c1", "c3")], 3: [("delete", "./d/k", "c2")]}}
        for prog, program in alias.items():
            for k in range(10 if tier == "quick" else 300):
                jobs.append({"prog": prog, "program": program, "init": {"f": "c1", "d/k": "c1"}, "policy": "lock_stress" if k % 2 else "random",
                             "seed": vlib.seed() * 97 + k, "src": "search"})
        # the lock itself as the suspect: every multi-commit program under the lock-stress policy
        for prog, program in [("casrace3", hr.CASRACE3), ("three", hr.EXTRA["three"]), ("deldel", hr.EXTRA["deldel"]), ("putput", hr.PROGRAMS["putput"]),
                              ("create", hr.PROGRAMS["create"]), ("putdel", hr.PROGRAMS["putdel"])]:
            for k in range(12 if tier == "quick" else 800):
                jobs.append({"prog": prog, "program": program, "policy": "lock_stress", "seed": vlib.seed() * 313 + k, "src": "search"})
        # adversarial corpus (counterexamples of weakened model variants, kept as regressions)
        jobs.append({"prog": "list_race", "program": hr.LIST_RACE, "policy": "list_race", "init": {"f": "c1", "g": "c1"}, "src": "corpus"})
        jobs.append({"prog": "lock_identity", "program": hr.CASRACE3, "policy": "lock_identity", "src": "corpus"})
        jobs.append({"prog": "stage_both_then_commit", "program": hr.PROGRAMS["putput"], "order": [1, 2] * 12, "src": "corpus"})
        jobs.append({"prog": "get_between_commits", "program": {1: [("put", "f", "c1", "c2")], 2: [("get", "f")]},
                     "order": [2, 1, 1, 1, 1, 1, 1, 1, 1, 2, 2, 2], "src": "corpus"})
        log(f"[{pid}] {len(jobs)} executions to run")
        recs = hr.run_jobs(copia, shim, os.path.join(work, "x"), hashes, jobs)
        errs = [x for x in recs if "error" in x]
        if len(errs) > len(recs) // 20:
            raise vlib.ToolError(f"scheduling controller failed on {len(errs)} executions: {errs[0]['error']}")
        recs = [x for x in recs if "error" not in x]
        for rc, job in zip(recs, [j for j, x in zip(jobs, recs)]):
            pass
        accepted = validate(recs, work, "a")
        retry = []
        for i, rc in enumerate(recs):
            if i not in accepted and any(e["t"] == "call" and e["op"]["kind"] == "list" for e in rc["events"]):
                retry.append(i)
        relaxed_ok = set()
        if retry:
            rel = []
            for i in retry:
                rr = dict(recs[i])
                rr["relax_list"] = True
                rel.append(rr)
            acc2 = validate(rel, work, "r")
            relaxed_ok = {retry[j] for j in acc2}
        nconf = nrep = nrep_checked = 0
        for i, rc in enumerate(recs):
            if pid == "C03" and i not in accepted:
                key = f"{rc['prog']}-" + "".join(str(s[0]) for s in rc["sched"])[:60] + (f"-kill{rc['kill']}" if rc["kill"] else "") + (f"-killed{rc['killed']}" if rc.get("killed") else "")
                if i in relaxed_ok:
                    key = "list-snapshot-" + key
                vd.violation(key, describe(rc, "no linearization of HubAtomic explains the replies and the final tree"
                                           + (" (accepted when List replies are not constrained)" if i in relaxed_ok else "")),
                             {"kind": "hub-history", "record": rc, "list_only": i in relaxed_ok})
            if pid == "C10":
                # (seeded 'gen' programs mix a bad Put with arbitrary CAS traffic: a failure there need not be the bad Put's doing,
                #  so this clause is decided on the directed programs only; C03 reports the others)
                if (i not in accepted and i not in relaxed_ok and not rc["prog"].startswith("gen")
                        and any(e["t"] == "call" and not e["op"]["valid"] for e in rc["events"])):
                    vd.violation(f"{rc['prog']}-badput-" + "".join(str(s[0]) for s in rc["sched"])[:60],
                                 describe(rc, "a Put whose streamed bytes do not match its declared hash / length did not leave the tree and replies as if it had never been sent"),
                                 {"kind": "hub-history", "record": rc})
                if rc["torn_steps"]:
                    key = f"{rc['prog']}-torn-" + "".join(str(s[0]) for s in rc["sched"])[:60]
                    vd.violation(key, describe(rc, f"a non-staging hub path held incomplete / foreign bytes after step {rc['torn_steps'][0]}"),
                                 {"kind": "hub-history", "record": rc})
                for e in rc["events"]:
                    if e["t"] == "ret" and e["reply"].get("r") == "content" and not (e["reply"]["len_ok"] and e["reply"]["hash"] == e["reply"]["body"]):
                        key = f"{rc['prog']}-get-" + "".join(str(s[0]) for s in rc["sched"])[:60]
                        vd.violation(key, describe(rc, f"Get delivered a body that does not match its announced length/hash: {e['reply']}"),
                                     {"kind": "hub-history", "record": rc})
                bad_final = {k: v for k, v in rc["final"].items() if v in ("torn", "empty")}
                if bad_final:
                    vd.violation(f"{rc['prog']}-final-" + "".join(str(s[0]) for s in rc["sched"])[:60],
                                 describe(rc, f"after the run a listed path holds incomplete bytes: {bad_final}"), {"kind": "hub-history", "record": rc})
            if isinstance(rc.get("want_final"), dict) and not rc["kill"]:
                import re
                wf = {}
                for k, v in rc["want_final"].items():
                    parts = re.findall(r'"([^"]*)"', k)
                    if parts and parts[0] == "live":
                        wf[parts[1]] = v
                    elif parts and parts[0] == "conf":
                        wf[f"{parts[1]}#{parts[2]}"] = v
                if wf != rc["final"]:
                    nconf += 1
                    if nconf <= 3:
                        vd.nonconformance(f"replayed model behaviour of {rc['prog']} ended in {rc['final']}, model says {wf}")
                # the replay follows the behaviour step by step (by action label), so every reply has to be the model's too
                if rc.get("want_replies") is not None:
                    want = {i + 1: [hr.model_reply_key(m) for m in seq] for i, seq in enumerate(rc["want_replies"])}
                    got = hr.real_reply_keys(rc)
                    want = {k: v for k, v in want.items() if v}
                    nrep_checked += 1
                    if got != want:
                        nrep += 1
                        if nrep <= 3:
                            vd.nonconformance(f"replayed model behaviour of {rc['prog']} (order {''.join(str(s[0]) for s in rc['sched'])}): replies {got}, model says {want}")
        if nrep_checked == 0:
            raise vlib.ToolError("no replayed model behaviour had its replies compared (vacuous spec -> code binding)")
        if pid == "C10":
            # "a write whose streamed bytes do not match its declared hash or LENGTH changes no such path": single sessions of
            # the real server (the HubSession pieces that are such writes), alone and followed by a read
            import hub_session as hs
            bad_puts = ["put_badhash", "put_dir_badhash", "put_content_eof", "put_len_beyond_eof", "put_empty_badhash"]
            scases = [{"pro": "ok", "pieces": [b] + tail, "replies": [], "exit": 0, "f": "c1", "conf": "none"} for b in bad_puts for tail in ([], ["get"], ["list", "get"])]
            srecs = hs.run_cases(copia, os.path.join(work, "s10"), hashes, [], [(c, "session", vlib.seed() + i) for i, c in enumerate(scases)])
            for e in srecs:
                if not e["tree_unchanged"]:
                    vd.violation("mismatched-put-" + "-".join(e["pieces"]),
                                 f"session {e['pieces']}: a Put whose bytes do not match its declared hash / length changed the served tree: f={e['f']} conflict-copy={e['conf']} replies={e['replies']}",
                                 {"kind": "hub-session", "record": e})
            ev.add(evaluations=len(srecs), traces_validated_against_impl=len(srecs))
        ev.extra["conformance"] = {"replayed_model_behaviours": sum(1 for x in recs if isinstance(x.get("want_final"), dict) and not x["kill"]), "final_state_mismatches": nconf,
                                   "replies_compared": nrep_checked, "reply_mismatches": nrep,
                                   "alignment": "by action label (server, pc) of the behaviour, not by step count"}
        ev.extra["executions"] = {"total": len(recs), "accepted_linearizable": len(accepted), "list_only_failures": len(relaxed_ok),
                                  "controller_errors": len(errs), "with_kill": sum(1 for x in recs if x["kill"] or x.get("killed")),
                                  "by_source": {s: sum(1 for j in jobs if j.get("src") == s) for s in ("tlc", "tlc-kill", "search")}}
        ev.add(evaluations=len(recs), traces_validated_against_impl=len(recs),
               distinct_nontrivial=len({(x["prog"], tuple(s[0] for s in x["sched"])) for x in recs if len({s[0] for s in x["sched"]}) > 1}),
               rule="one execution = fresh `copia serve` processes driven call by call by the controller; schedules = model behaviours "
                    "(HubSched) + seeded random orders with kills; non-trivial = distinct (program, server order) with at least two "
                    "servers taking visible steps.", exhaustive=False)
        for rc in recs[:1] + [x for x in recs if x["kill"]][:1]:
            ev.sample({k: rc[k] for k in ("prog", "sched", "events", "final", "kill")})
        ev.assumptions += ["`copia serve` performs all tracked calls on one thread (probed), so scheduling is strict",
                           "call = last request byte made available, return = reply read: widens intervals, never narrows them"]
    finally:
        shutil.rmtree(work, ignore_errors=True)
    return vd.finish() if finish else 0


def validate(recs, work, tag):
    """TLC linearization search; returns the set of accepted record indices"""
    shard = 150
    files = []
    for i in range(0, len(recs), shard):
        path = os.path.join(work, f"hist-{tag}{i // shard}.ndjson")
        with open(path, "w") as f:
            for e in recs[i:i + shard]:
                f.write(json.dumps({"init": e["init"], "events": e["events"], "final": e["final"], "relax_list": e["relax_list"]}) + "\n")
        files.append((path, i))

    def one(fn):
        path, off = fn
        rr = tlc("HubLinTrace", "HubLinTrace.cfg", workers=2, timeout=2500, env_extra={"TRACE": path}, xmx="3g")
        if rr.error and not rr.payloads:
            raise vlib.ToolError("HubLinTrace failed: " + rr.raw_tail[-400:])
        return {off + a["h"] - 1 for a in rr.payloads.get("ACC", [])}

    acc = set()
    with ThreadPoolExecutor(max_workers=6) as ex:
        for s in ex.map(one, files):
            acc |= s
    return acc


def describe(rc, what):
    ev = []
    for e in rc["events"]:
        if e["t"] == "call":
            o = e["op"]
            ev.append(f"s{e['sid']}:call#{e['id']} {o['kind']}({o['path']}" + (f", exp={o['exp']}, {o['c']}" if o["kind"] == "put" else (f", exp={o['exp']}" if o["kind"] == "delete" else "")) + ")")
        else:
            r = {k: v for k, v in e["reply"].items() if v not in ("none", {}, True) or k == "r"}
            ev.append(f"s{e['sid']}:ret#{e['id']} {r}")
    return (f"{what}. program={rc['prog']} init={rc['init']} kill={rc['kill']} order={''.join(str(s[0]) for s in rc['sched'])} "
            f"history=[{'; '.join(ev)}] final={rc['final']}")


def replay(path):
    d = json.load(open(path))
    print(d.get("what"))
    return 0
