import oneway_common


def run(tier):
    return oneway_common.run("C04", tier)


def replay(path):
    return oneway_common.replay(path)
