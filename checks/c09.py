"""C09 — one-way delivery is atomic under a crash at any point.

1. TLC, OneWayCrash.tla: the delivery pipelines of the three directions at the granularity of the copia process's
   write calls, up to Jobs in flight, a crash before any call, the push direction's remote shell as a surviving
   process, and the rerun; invariants Atomic, RerunCompletes, NoCrashDelivers.  The pinned commit's push (no size
   test before mv) must be refuted.
2. Binding S (kill mode): every scenario (new / overwritten / empty / multi-chunk / untouched / stale files, jobs 1 and
   2, --delete) in every direction is run once traced (N = mutating + pipe-write calls of copia) and then killed before
   call k for k = 1..N (quick: <= 40 evenly spread + the first and last 6); orphaned remote shells are waited for;
   snapshot; the same command is run again.
3. TLC (OneWayCrashTrace.tla) decides every record.
"""
import json
import os
import shutil
from concurrent.futures import ThreadPoolExecutor

import vlib
import oneway_crash as oc
from vlib import Evidence, Verdict, tlc, log

SHIMDIR = os.path.join(vlib.VERIF, "shim")


def run(tier):
    pid = "C09"
    ev = Evidence(pid, tier, "fault_enumeration")
    vd = Verdict(pid, ev)
    copia = vlib.build_repo()
    shim = vlib.build_shim()
    work = vlib.shm_dir("c09")
    try:
        for d in ("local", "pull", "push"):
            r = tlc("MC_OneWayCrash", f"MC_OneWayCrash_{d}.cfg", workers=4, timeout=900, want_payload=False)
            ev.cov["states"] += r.distinct
            ev.cov["transitions"] += r.generated
            if r.violation:
                vd.nonconformance(f"TLC: OneWayCrash ({d}) invariant {r.violation} fails in the model")
        r0 = tlc("MC_OneWayCrash", "MC_OneWayCrash_pushorig.cfg", workers=4, timeout=600, want_payload=False)
        ev.extra["push_without_size_test_refuted"] = r0.violation
        if r0.violation != "Atomic":
            raise vlib.ToolError("sanity: TLC no longer refutes atomicity for the pinned commit's push")
        scs, recs = oc.run_all(copia, shim, SHIMDIR, os.path.join(work, "k"), tier)
        recs.sort(key=lambda x: (x["sid"], x["k"]))
        log(f"[C09] {len(scs)} scenarios, {len(recs)} (scenario, k) records")
        files = []
        shard = 120
        for i in range(0, len(recs), shard):
            path = os.path.join(work, f"crash{i // shard}.ndjson")
            with open(path, "w") as f:
                for e in recs[i:i + shard]:
                    f.write(json.dumps(e) + "\n")
            files.append((path, len(recs[i:i + shard]), i))

        def validate(fn):
            path, n, off = fn
            rr = tlc("OneWayCrashTrace", "OneWayCrashTrace.cfg", workers=1, timeout=2500, env_extra={"TRACE": path}, depth_first=True)
            res = rr.payloads.get("RESULT", [])
            if not res or res[0]["n"] != n:
                raise vlib.ToolError("OneWayCrashTrace did not consume " + path + rr.raw_tail[-300:])
            return off, res[0]

        nonconf = 0
        with ThreadPoolExecutor(max_workers=10) as ex:
            for off, res in ex.map(validate, files):
                for (ln, q) in res["bad"]:
                    e = recs[off + ln - 1]
                    what = (f"scenario '{e['scenario']}' jobs={e['jobs']}, killed before write call {e['k']}/{e['n_mut']}: {q}; "
                            + ", ".join(f"{p['name']!r}:{p['old']}->{p['crash']}" for p in e["paths"])
                            + f"; rerun exit={e['rerun_exit']} equals uninterrupted={e['rerun_equal']}")
                    vd.violation(f"s{e['sid']}-k{e['k']}-{q}", what, {"kind": "oneway-crash", "record": e})
                for ln in res["nonconf"]:
                    nonconf += 1
                    if nonconf <= 3:
                        e = recs[off + ln - 1]
                        vd.nonconformance(f"scenario '{e['scenario']}' k={e['k']}: snapshot is not what the logged calls give in OneWayCrash")
        ev.extra["conformance"] = {"records": len(recs), "mismatched": nonconf}
        ev.extra["scenarios"] = [{"name": s["name"], "kill_points_N": max((e["n_mut"] for e in recs if e["sid"] == s["id"]), default=0),
                                  "explored": sum(1 for e in recs if e["sid"] == s["id"] and e["k"] > 0)} for s in scs]
        ev.add(evaluations=len(recs), distinct_nontrivial=sum(1 for e in recs if e["k"] > 0 and e["exit"] != 0),
               traces_validated_against_impl=len(recs),
               rule="per scenario one traced run gives N; one killed run per explored k, then the rerun. non-trivial = the process was "
                    "really killed (exit status is a signal). quick explores <= 40 evenly spread k plus the first/last 6 per scenario; "
                    "thorough every k.", exhaustive=(tier == "thorough"))
        ev.sample({k: recs[5][k] for k in ("scenario", "k", "n_mut", "paths", "calls", "rerun_exit", "rerun_equal")})
        ev.assumptions += ["kill points counted by the shim across all threads of the copia process (file-system calls under the trees + pipe writes)",
                           "push: orphaned stand-in shells are waited for (process group empty) before the snapshot"]
    finally:
        shutil.rmtree(work, ignore_errors=True)
    return vd.finish()


def replay(path):
    d = json.load(open(path))
    print(d.get("what"))
    print(json.dumps(d.get("record"), indent=1)[:3000])
    return 0
