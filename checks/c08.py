"""C08 — bisync is crash-safe: the record never runs ahead of the data.

1. TLC, BisyncCrash.tla: the run compiled into its program of file-system calls; a crash before any call of any
   scenario class (create, propagate either way, delete either way, both-changed, delete-vs-modify, first run,
   two paths at once, converge-only); invariants Atomic, RecordNotAhead (incl. the fsync ordering clause),
   ArchiveWhole, RefinesRun (no crash = Bisync!Run), RecoveryOK.  FixFsync = FALSE (pinned commit) must be refuted.
2. Binding S (kill mode): for every scenario instance and every k = 1..N the real process is killed immediately
   before its k-th mutating libc call (LD_PRELOAD shim); snapshots after the kill and after recovery run(s).
3. TLC (BisyncCrashTrace.tla) replays the logged calls through the model's Exec, evaluating the invariants at every
   replayed state, compares with the observed snapshot (Conform), and decides the clauses on the observed data.
"""
import json
import os
import shutil
from concurrent.futures import ThreadPoolExecutor

import vlib
import bisync_graph as bg
import bisync_crash as bc
from vlib import Evidence, Verdict, tlc, log


def scenarios(uni, tier):
    np_ = uni.np
    ix = {q: i for i, q in enumerate(uni.paths)}
    P, Q = ix[(1,)], ix[(2,)]

    def t2(x, y, extra=None):
        arr = [0] * np_
        arr[P], arr[Q] = x, y
        for k, v in (extra or {}).items():
            arr[ix[k]] = v
        return arr
    z = t2(0, 0)
    S = []

    def add(name, a, b, tr, e, last, **kw):
        S.append(dict(id=len(S), name=name, A=a, B=b, tr=tr, E=e, last=last, **kw))
    add("create, first run without archive", t2(1, 0), z, False, z, z)
    add("create A->B", t2(1, 2), t2(0, 2), True, t2(0, 2), t2(0, 2))
    add("create B->A", t2(0, 2), t2(1, 2), True, t2(0, 2), t2(0, 2))
    add("propagate A->B", t2(2, 0), t2(1, 0), True, t2(1, 0), t2(1, 0))
    add("propagate B->A", t2(1, 0), t2(2, 0), True, t2(1, 0), t2(1, 0))
    add("delete A->B", z, t2(1, 0), True, t2(1, 0), t2(1, 0))
    add("delete B->A", t2(1, 2), t2(0, 2), True, t2(1, 2), t2(1, 2))
    add("both changed, base present", t2(1, 0), t2(2, 0), True, t2(0, 1), t2(0, 0))
    add("both changed, first run", t2(1, 0), t2(2, 0), False, z, z)
    add("delete vs modify", t2(2, 0), z, True, t2(1, 0), t2(1, 0))
    add("two paths: propagate + delete", t2(2, 1), t2(1, 0), True, t2(1, 1), t2(1, 1), second_gen=True)
    add("two conflicts at once", t2(1, 2), t2(2, 1), False, z, z)
    # a stale, LONGER file at the archive's staging name (left by a run killed inside an earlier save)
    add("propagate + delete over a stale archive staging file", t2(2, 1), t2(1, 0), True, t2(1, 1), t2(1, 1), second_gen=True, stale_arch_tmp=True)
    add("delete A->B over a stale archive staging file", z, t2(1, 0), True, t2(1, 0), t2(1, 0), stale_arch_tmp=True)
    if tier == "thorough":
        add("converge only", t2(1, 1), t2(1, 1), True, t2(2, 0), t2(2, 0))
        add("conflict with the copy name taken", t2(1, 0, {(1, (1, 0)): 2}), t2(2, 0, {(1, (1, 0)): 2}), True, t2(0, 0, {(1, (1, 0)): 2}), t2(0, 0, {(1, (1, 0)): 2}))
        add("delete both ways + create", t2(0, 2), t2(1, 0), True, t2(1, 2), t2(1, 2), second_gen=True)
        add("propagate both ways", t2(2, 1), t2(1, 2), True, t2(1, 1), t2(1, 1))
    # every (A, B, archive) over the two base paths and two contents: 9 x 9 x (untrusted + 9 trusted) = 810 instances.
    # thorough runs them all, quick a seeded share.
    import itertools
    import random
    enum = []
    trees = list(itertools.product((0, 1, 2), repeat=2))
    for a in trees:
        for b in trees:
            for e in [None] + trees:
                enum.append((a, b, e))
    if tier != "thorough":
        enum = random.Random(vlib.seed()).sample(enum, 60)
    for a, b, e in enum:
        ee = t2(*e) if e is not None else z
        add(f"enumerated A={a} B={b} archive={e if e is not None else 'none'}", t2(*a), t2(*b), e is not None, ee, ee)
    return S


def link_scenarios(copia, shim, work, vd, ev):
    """Versions that are SYMBOLIC LINKS (delivered by symlink + rename at the staging name, not by a byte copy), judged directly by the
    last clause of C08: killed before each mutating call, then re-run (up to 4 times while a run stops on a leftover staging name),
    every non-staging path on both sides is what an uninterrupted run produces.  Outside BisyncCrash's call vocabulary, so no
    replay through the model: the oracle is the uninterrupted run of the same state."""
    import subprocess
    bc.SHIM, bc.COPIA = shim, copia
    B1, B2 = b"one\n" * 700, b"two, longer\n" * 900

    def snap(root):
        out = {}
        for dp, dn, fn in os.walk(root):
            for f in fn + [x for x in dn if os.path.islink(os.path.join(dp, x))]:
                p = os.path.join(dp, f)
                rel = os.path.relpath(p, root)
                if rel.endswith(bc.STG):
                    continue
                out[rel] = ("L", os.readlink(p)) if os.path.islink(p) else ("F", open(p, "rb").read().hex()[:64], os.path.getsize(p))
        return out

    def save(d):
        out = {}
        for dp, dn, fn in os.walk(d):
            for x in dn:
                if not os.path.islink(os.path.join(dp, x)):
                    out[os.path.relpath(os.path.join(dp, x), d)] = ("D",)
            for f in fn + [x for x in dn if os.path.islink(os.path.join(dp, x))]:
                p = os.path.join(dp, f)
                out[os.path.relpath(p, d)] = ("L", os.readlink(p)) if os.path.islink(p) else ("F", open(p, "rb").read())
        return out

    def restore(d, sv):
        shutil.rmtree(d, ignore_errors=True)
        os.makedirs(d)
        for rel, v in sorted(sv.items()):
            p = os.path.join(d, rel)
            os.makedirs(os.path.dirname(p), exist_ok=True)
            if v[0] == "D":
                os.makedirs(p, exist_ok=True)
            elif v[0] == "L":
                os.symlink(v[1], p)
            else:
                with open(p, "wb") as f:
                    f.write(v[1])

    def w(path, data):
        os.makedirs(os.path.dirname(path), exist_ok=True)
        with open(path, "wb") as f:
            f.write(data)

    def mk(name, base, edit):
        return {"name": name, "base": base, "edit": edit}
    scs = [
        mk("a link created on A", lambda A, B: (w(A + "/t1", B1), w(B + "/t1", B1)), lambda A, B: os.symlink("t1", A + "/cur")),
        mk("a link re-pointed on B", lambda A, B: [(w(r + "/t1", B1), w(r + "/t2", B2), os.symlink("t1", r + "/cur")) for r in (A, B)],
           lambda A, B: (os.unlink(B + "/cur"), os.symlink("t2", B + "/cur"))),
        mk("link against link, first run", None, lambda A, B: (w(A + "/t1", B1), w(B + "/t1", B1), os.symlink("t1", A + "/cur"), os.symlink("./t1", B + "/cur"))),
        mk("link against file, base present", lambda A, B: (w(A + "/cur", B1), w(B + "/cur", B1)),
           lambda A, B: (os.unlink(A + "/cur"), os.symlink("nowhere", A + "/cur"), w(B + "/cur", B2))),
        mk("a link in a new sub-directory and a file next to it", None, lambda A, B: (w(A + "/sub/t", B2), os.symlink("t", A + "/sub/l"), w(B + "/other", B1))),
    ]
    nrec = 0
    for si, sc in enumerate(scs):
        d = os.path.join(work, f"lk{si}")
        A, B, home = (os.path.join(d, x) for x in ("A", "B", "home"))
        for x in (A, B, home):
            os.makedirs(x)
        plain = bg._env(home)

        def bisync(env):
            return subprocess.run([copia, "bisync", A, B], env=env, stdout=subprocess.PIPE, stderr=subprocess.PIPE, timeout=60)
        if sc["base"]:
            sc["base"](A, B)
            bisync(plain)
        sc["edit"](A, B)
        pre = {x: save(os.path.join(d, x)) for x in ("A", "B", "home")}
        logf = os.path.join(d, "log")
        open(logf, "w").close()
        p0 = bisync(bc._env(home, d, log=logf))
        n_mut = sum(1 for x in open(logf) if json.loads(x)["mut"])
        want = {"A": snap(A), "B": snap(B)}
        if p0.returncode not in (0, 1) or n_mut == 0:
            raise vlib.ToolError(f"link scenario '{sc['name']}': the uninterrupted run failed ({p0.returncode}): {p0.stderr[-200:]}")
        for k in range(1, n_mut + 1):
            for x in ("A", "B", "home"):
                restore(os.path.join(d, x), pre[x])
            pk = bisync(bc._env(home, d, log=logf, kill=k))
            exits = [pk.returncode]
            for attempt in range(4):
                q = bisync(plain)
                exits.append(q.returncode)
                if q.returncode == 0 or (q.returncode == 1 and b"had conflicts" in q.stderr):
                    break
            got = {"A": snap(A), "B": snap(B)}
            nrec += 1
            if got != want or exits[-1] not in (0, 1):
                diff = {side: {n: (got[side].get(n), want[side].get(n)) for n in set(got[side]) | set(want[side]) if got[side].get(n) != want[side].get(n)} for side in ("A", "B")}
                vd.violation(f"link-s{si}-k{k}", f"scenario '{sc['name']}' (a version that is a symbolic link), killed before mutating call {k}/{n_mut}: after the re-runs "
                             f"(exits {exits}) the pair is not in the state of an uninterrupted run; differing paths (got, want): {str(diff)[:400]}; last stderr: {q.stderr.decode('utf8', 'replace')[-160:]}",
                             {"kind": "bisync-crash-link", "scenario": sc["name"], "k": k, "exits": exits, "diff": str(diff)})
        shutil.rmtree(d, ignore_errors=True)
    ev.extra["link_scenarios"] = {"scenarios": len(scs), "kill_points": nrec}
    ev.add(evaluations=nrec, traces_validated_against_impl=nrec)
    return nrec


def run(tier):
    pid = "C08"
    ev = Evidence(pid, tier, "fault_enumeration")
    vd = Verdict(pid, ev)
    copia = vlib.build_repo()
    bins = vlib.build_harness(["vh_lib"])
    shim = vlib.build_shim()
    work = vlib.shm_dir("c08")
    try:
        r = tlc("MC_BisyncCrash", "MC_BisyncCrash_TRUE.cfg", workers=8, timeout=1500)
        ev.cov["states"] += r.distinct
        ev.cov["transitions"] += r.generated
        if r.violation:
            vd.nonconformance(f"TLC: BisyncCrash invariant {r.violation} fails in the model")
        r0 = tlc("MC_BisyncCrash", "MC_BisyncCrash_FALSE.cfg", workers=4, timeout=600, want_payload=False)
        ev.extra["no_fsync_variant_refuted"] = r0.violation
        if r0.violation != "RecordNotAhead":
            raise vlib.ToolError("sanity: TLC no longer refutes the ordering clause for the pinned commit (no fsync of delivered files)")
        # path list of the trace universe
        ppath = os.path.join(work, "paths.json")
        tlc("MC_Bisync", "MC_Bisync_crashuni.cfg", workers=2, timeout=600, env_extra={"PATHS_OUT": ppath}, want_payload=False)
        pathlist = json.load(open(ppath))
        contents = json.loads(vlib.run_cmd([bins["vh_lib"], "gen-contents", "2"]).stdout)
        blob = (pathlist, contents, [])
        uni = bg.Universe(*blob)
        scs = scenarios(uni, tier)
        recs = bc.run_all(copia, shim, scs, blob, os.path.join(work, "k"))
        log(f"[C08] {len(scs)} scenarios, {len(recs)} (scenario, k) records")
        recs.sort(key=lambda x: (x["sid"], x["k"]))
        files = []
        shard = 60
        for i in range(0, len(recs), shard):
            path = os.path.join(work, f"crash{i // shard}.ndjson")
            with open(path, "w") as f:
                for e in recs[i:i + shard]:
                    f.write(json.dumps({k: v for k, v in e.items() if k != "raw_calls"}) + "\n")
            files.append((path, len(recs[i:i + shard]), i))

        def validate(fn):
            path, n, off = fn
            rr = tlc("BisyncCrashTrace", "BisyncCrashTrace.cfg", workers=1, timeout=2500, env_extra={"TRACE": path}, depth_first=True, xmx="3g")
            res = rr.payloads.get("RESULT", [])
            if not res or res[0]["n"] != n:
                raise vlib.ToolError("BisyncCrashTrace did not consume " + path + ": " + rr.raw_tail[-500:])
            return off, res[0]

        nonconf = 0
        with ThreadPoolExecutor(max_workers=10) as ex:
            for off, res in ex.map(validate, files):
                for (ln, q) in res["bad"]:
                    e = recs[off + ln - 1]
                    what = (f"scenario '{e['scenario']}', killed before mutating call {e['k']}/{e['n_mut']}: {q}; "
                            f"snapshot A={e['crash']['A']} B={e['crash']['B']} archive={e['crash']['arch']}; "
                            f"after recovery A={e['rec']['A']} B={e['rec']['B']} (uninterrupted: A={e['fin']['A']} B={e['fin']['B']}); exits={e['exits']}")
                    if e["k"] == 0:
                        what = f"scenario '{e['scenario']}', uninterrupted run: {q} (call order: {[c['op'] for c in e['calls']]})"
                    vd.violation(f"s{e['sid']}-k{e['k']}-{q}", what, {"kind": "bisync-crash", "record": e, "names": uni.names})
                for ln in res["nonconf"]:
                    nonconf += 1
                    if nonconf <= 3:
                        e = recs[off + ln - 1]
                        vd.nonconformance(f"scenario '{e['scenario']}' k={e['k']}: replay of the logged calls through BisyncCrash!Exec does not give the observed snapshot / program")
        nl = link_scenarios(copia, shim, os.path.join(work, "links"), vd, ev)
        log(f"[C08] link scenarios: {nl} kill points")
        ev.extra["conformance"] = {"records": len(recs), "mismatched": nonconf}
        ev.add(evaluations=len(recs), distinct_nontrivial=sum(1 for e in recs if e["k"] > 0),
               traces_validated_against_impl=len(recs),
               rule="for each scenario instance: one uninterrupted traced run (N = mutating libc calls) and one killed run per k = 1..N, "
                    "each followed by recovery run(s); non-trivial = k > 0. Exhaustive in k for every scenario listed.",
               exhaustive=True)
        ev.extra["scenarios"] = [{"name": s["name"], "kill_points": max(e["n_mut"] for e in recs if e["sid"] == s["id"])} for s in scs]
        ev.sample({k: recs[3][k] for k in ("scenario", "k", "n_mut", "calls", "crash", "rec", "exits")})
        ev.sample(recs[0].get("raw_calls"))
        ev.assumptions += ["process-kill crashes keep every completed system call; durability is judged by the presence and order of fsync calls (DESIGN A4)",
                           "kill points are counted by the shim across all threads of the copia process"]
    finally:
        shutil.rmtree(work, ignore_errors=True)
    return vd.finish()


def replay(path):
    d = json.load(open(path))
    print(d.get("what"))
    print(json.dumps(d.get("record"), indent=1)[:3000])
    return 0
