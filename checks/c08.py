"""C08 — bisync is crash-safe: the record never runs ahead of the data.

1. TLC, BisyncCrash.tla: the run compiled into its program of file-system calls; a crash before any call of any
   scenario class (create, propagate either way, delete either way, both-changed, delete-vs-modify, first run,
   two paths at once, converge-only); invariants Atomic, RecordNotAhead (incl. the fsync ordering clause),
   ArchiveWhole, RefinesRun (no crash = Bisync!Run), RecoveryOK.  FixFsync = FALSE (pinned commit) must be refuted.
2. Binding S (kill mode): for every scenario instance and every k = 1..N the real process is killed immediately
   before its k-th mutating libc call (LD_PRELOAD shim); snapshots after the kill and after recovery run(s).
3. TLC (BisyncCrashTrace.tla) replays the logged calls through the model's Exec, evaluating the invariants at every
   replayed state, compares with the observed snapshot (Conform), and decides the clauses on the observed data.
"""
import json
import os
import shutil
from concurrent.futures import ThreadPoolExecutor

import vlib
import bisync_graph as bg
import bisync_crash as bc
from vlib import Evidence, Verdict, tlc, log


def scenarios(uni, tier):
    np_ = uni.np
    ix = {q: i for i, q in enumerate(uni.paths)}
    P, Q = ix[(1,)], ix[(2,)]

    def t2(x, y, extra=None):
        arr = [0] * np_
        arr[P], arr[Q] = x, y
        for k, v in (extra or {}).items():
            arr[ix[k]] = v
        return arr
    z = t2(0, 0)
    S = []

    def add(name, a, b, tr, e, last, **kw):
        S.append(dict(id=len(S), name=name, A=a, B=b, tr=tr, E=e, last=last, **kw))
    add("create, first run without archive", t2(1, 0), z, False, z, z)
    add("create A->B", t2(1, 2), t2(0, 2), True, t2(0, 2), t2(0, 2))
    add("create B->A", t2(0, 2), t2(1, 2), True, t2(0, 2), t2(0, 2))
    add("propagate A->B", t2(2, 0), t2(1, 0), True, t2(1, 0), t2(1, 0))
    add("propagate B->A", t2(1, 0), t2(2, 0), True, t2(1, 0), t2(1, 0))
    add("delete A->B", z, t2(1, 0), True, t2(1, 0), t2(1, 0))
    add("delete B->A", t2(1, 2), t2(0, 2), True, t2(1, 2), t2(1, 2))
    add("both changed, base present", t2(1, 0), t2(2, 0), True, t2(0, 1), t2(0, 0))
    add("both changed, first run", t2(1, 0), t2(2, 0), False, z, z)
    add("delete vs modify", t2(2, 0), z, True, t2(1, 0), t2(1, 0))
    add("two paths: propagate + delete", t2(2, 1), t2(1, 0), True, t2(1, 1), t2(1, 1), second_gen=True)
    add("two conflicts at once", t2(1, 2), t2(2, 1), False, z, z)
    # a stale, LONGER file at the archive's staging name (left by a run killed inside an earlier save)
    add("propagate + delete over a stale archive staging file", t2(2, 1), t2(1, 0), True, t2(1, 1), t2(1, 1), second_gen=True, stale_arch_tmp=True)
    add("delete A->B over a stale archive staging file", z, t2(1, 0), True, t2(1, 0), t2(1, 0), stale_arch_tmp=True)
    if tier == "thorough":
        add("converge only", t2(1, 1), t2(1, 1), True, t2(2, 0), t2(2, 0))
        add("conflict with the copy name taken", t2(1, 0, {(1, (1, 0)): 2}), t2(2, 0, {(1, (1, 0)): 2}), True, t2(0, 0, {(1, (1, 0)): 2}), t2(0, 0, {(1, (1, 0)): 2}))
        add("delete both ways + create", t2(0, 2), t2(1, 0), True, t2(1, 2), t2(1, 2), second_gen=True)
        add("propagate both ways", t2(2, 1), t2(1, 2), True, t2(1, 1), t2(1, 1))
    # every (A, B, archive) over the two base paths and two contents: 9 x 9 x (untrusted + 9 trusted) = 810 instances.
    # thorough runs them all, quick a seeded share.
    import itertools
    import random
    enum = []
    trees = list(itertools.product((0, 1, 2), repeat=2))
    for a in trees:
        for b in trees:
            for e in [None] + trees:
                enum.append((a, b, e))
    if tier != "thorough":
        enum = random.Random(vlib.seed()).sample(enum, 60)
    for a, b, e in enum:
        ee = t2(*e) if e is not None else z
        add(f"enumerated A={a} B={b} archive={e if e is not None else 'none'}", t2(*a), t2(*b), e is not None, ee, ee)
    return S


def run(tier):
    pid = "C08"
    ev = Evidence(pid, tier, "fault_enumeration")
    vd = Verdict(pid, ev)
    copia = vlib.build_repo()
    bins = vlib.build_harness(["vh_lib"])
    shim = vlib.build_shim()
    work = vlib.shm_dir("c08")
    try:
        r = tlc("MC_BisyncCrash", "MC_BisyncCrash_TRUE.cfg", workers=8, timeout=1500)
        ev.cov["states"] += r.distinct
        ev.cov["transitions"] += r.generated
        if r.violation:
            vd.nonconformance(f"TLC: BisyncCrash invariant {r.violation} fails in the model")
        r0 = tlc("MC_BisyncCrash", "MC_BisyncCrash_FALSE.cfg", workers=4, timeout=600, want_payload=False)
        ev.extra["no_fsync_variant_refuted"] = r0.violation
        if r0.violation != "RecordNotAhead":
            raise vlib.ToolError("sanity: TLC no longer refutes the ordering clause for the pinned commit (no fsync of delivered files)")
        # path list of the trace universe
        ppath = os.path.join(work, "paths.json")
        tlc("MC_Bisync", "MC_Bisync_crashuni.cfg", workers=2, timeout=600, env_extra={"PATHS_OUT": ppath}, want_payload=False)
        pathlist = json.load(open(ppath))
        contents = json.loads(vlib.run_cmd([bins["vh_lib"], "gen-contents", "2"]).stdout)
        blob = (pathlist, contents, [])
        uni = bg.Universe(*blob)
        scs = scenarios(uni, tier)
        recs = bc.run_all(copia, shim, scs, blob, os.path.join(work, "k"))
        log(f"[C08] {len(scs)} scenarios, {len(recs)} (scenario, k) records")
        recs.sort(key=lambda x: (x["sid"], x["k"]))
        files = []
        shard = 60
        for i in range(0, len(recs), shard):
            path = os.path.join(work, f"crash{i // shard}.ndjson")
            with open(path, "w") as f:
                for e in recs[i:i + shard]:
                    f.write(json.dumps({k: v for k, v in e.items() if k != "raw_calls"}) + "\n")
            files.append((path, len(recs[i:i + shard]), i))

        def validate(fn):
            path, n, off = fn
            rr = tlc("BisyncCrashTrace", "BisyncCrashTrace.cfg", workers=1, timeout=2500, env_extra={"TRACE": path}, depth_first=True, xmx="3g")
            res = rr.payloads.get("RESULT", [])
            if not res or res[0]["n"] != n:
                raise vlib.ToolError("BisyncCrashTrace did not consume " + path + ": " + rr.raw_tail[-500:])
            return off, res[0]

        nonconf = 0
        with ThreadPoolExecutor(max_workers=10) as ex:
            for off, res in ex.map(validate, files):
                for (ln, q) in res["bad"]:
                    e = recs[off + ln - 1]
                    what = (f"scenario '{e['scenario']}', killed before mutating call {e['k']}/{e['n_mut']}: {q}; "
                            f"snapshot A={e['crash']['A']} B={e['crash']['B']} archive={e['crash']['arch']}; "
                            f"after recovery A={e['rec']['A']} B={e['rec']['B']} (uninterrupted: A={e['fin']['A']} B={e['fin']['B']}); exits={e['exits']}")
                    if e["k"] == 0:
                        what = f"scenario '{e['scenario']}', uninterrupted run: {q} (call order: {[c['op'] for c in e['calls']]})"
                    vd.violation(f"s{e['sid']}-k{e['k']}-{q}", what, {"kind": "bisync-crash", "record": e, "names": uni.names})
                for ln in res["nonconf"]:
                    nonconf += 1
                    if nonconf <= 3:
                        e = recs[off + ln - 1]
                        vd.nonconformance(f"scenario '{e['scenario']}' k={e['k']}: replay of the logged calls through BisyncCrash!Exec does not give the observed snapshot / program")
        ev.extra["conformance"] = {"records": len(recs), "mismatched": nonconf}
        ev.add(evaluations=len(recs), distinct_nontrivial=sum(1 for e in recs if e["k"] > 0),
               traces_validated_against_impl=len(recs),
               rule="for each scenario instance: one uninterrupted traced run (N = mutating libc calls) and one killed run per k = 1..N, "
                    "each followed by recovery run(s); non-trivial = k > 0. Exhaustive in k for every scenario listed.",
               exhaustive=True)
        ev.extra["scenarios"] = [{"name": s["name"], "kill_points": max(e["n_mut"] for e in recs if e["sid"] == s["id"])} for s in scs]
        ev.sample({k: recs[3][k] for k in ("scenario", "k", "n_mut", "calls", "crash", "rec", "exits")})
        ev.sample(recs[0].get("raw_calls"))
        ev.assumptions += ["process-kill crashes keep every completed system call; durability is judged by the presence and order of fsync calls (DESIGN A4)",
                           "kill points are counted by the shim across all threads of the copia process"]
    finally:
        shutil.rmtree(work, ignore_errors=True)
    return vd.finish()


def replay(path):
    d = json.load(open(path))
    print(d.get("what"))
    print(json.dumps(d.get("record"), indent=1)[:3000])
    return 0
