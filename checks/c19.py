"""C19 — the one-way planner and its pattern matcher equal their set definitions.

1. TLC: Glob.tla (GlobAlg = Match for every pattern x text over {a,b,*,?,.,/} up to length L; ExcludedAlg =
   ExcludedDef on every path of the Rels universe), PlanSpec.tla (the code's two loops = set definitions on all
   src/dst maps over 3 paths x exclude lists x delete), Listing.tla (Parse(Format(t)) = t on every listing of
   <= 2 records).  The "orig" glob variant (pinned commit's branch order) must still be refuted.
2. spec -> code: every enumerated case is run through the real glob_match / is_excluded / build_plan /
   parse_remote_meta_output (plan.rs, meta.rs compiled in unchanged) and compared with the spec's result.
3. code -> spec: seeded longer patterns / deeper paths / bigger maps; recorded results validated by TLC
   (PlanTrace.tla) against the declarative definitions.
"""
import json
import os
import shutil

import vlib
from vlib import Evidence, Verdict, tlc, log


def _dump(cases, path):
    with open(path, "w") as f:
        for c in cases:
            f.write(json.dumps(c) + "\n")


def _run_cases(vd, ev, binp, sub, cases, work, extra, label):
    cpath = os.path.join(work, f"{sub}.cases")
    opath = os.path.join(work, f"{sub}.out")
    _dump(cases, cpath)
    p = vlib.run_cmd([binp, sub, cpath, opath] + extra, timeout=3000)
    if p.returncode != 0:
        raise vlib.ToolError(f"vh_plan {sub} failed: " + p.stderr.decode()[-2000:])
    summ = None
    for line in open(opath):
        d = json.loads(line)
        if d["kind"] == "summary":
            summ = d
        else:
            key = f"{d['kind']}-" + "-".join(str(d.get(k)) for k in ("pat", "text", "rel", "case", "conc") if k in d)
            vd.violation(key, f"{label}: real function disagrees with the definition: " + json.dumps(d)[:300], d)
    ev.add(evaluations=summ["evaluations"], traces_validated_against_impl=summ["cases"],
           distinct_nontrivial=summ["nontrivial"])
    return summ


def run(tier, pid="C19", ev=None, vd=None, finish=True):
    ev = ev or Evidence(pid, tier, "model_checking")
    vd = vd or Verdict(pid, ev)
    try:
        bins = vlib.build_harness(["vh_plan"])
    except vlib.ToolError as e:
        # the pure modules no longer compile into the harness (e.g. a changed signature): decide what can be decided
        # through the CLI instead of reporting nothing - the planner and matcher drive `sync -r --dry-run` / real runs
        log(f"[{pid}] {e}; falling back to CLI-only exploration (one-way graph: plans, excludes, dry runs)")
        import oneway_common
        ev.extra["fallback"] = "harness build failed; planner / matcher decided through the CLI only"
        oneway_common.run(pid, tier, ev, vd, finish=False, accept={"C04", "C15"})
        return vd.finish() if finish else 0
    work = vlib.shm_dir(pid.lower())
    try:
        # --- glob + exclude
        gcfg, L = ("MC_Glob_fixed.cfg", 3) if tier == "quick" else ("MC_Glob_fixed4.cfg", 4)
        r = tlc("Glob", gcfg, workers=12, timeout=3000, xmx="8g")
        ev.tlc(r)
        if r.violation:
            vd.nonconformance(f"TLC: {r.violation} fails in {gcfg}: the modelled branch order does not implement the wildcard semantics")
        gcases = r.payloads.get("CASE", [])
        log(f"[{pid}] glob: {r.distinct} states, {len(gcases)} patterns")
        s1 = _run_cases(vd, ev, bins["vh_plan"], "glob-cases", gcases, work, [str(L)], "glob/exclude")
        if len(gcases) * s1["texts"] + len(gcases) * s1["rels"] != s1["evaluations"]:
            raise vlib.ToolError("glob scope mismatch between TLC and harness")
        r0 = tlc("Glob", "MC_Glob_orig.cfg", workers=4, timeout=600, want_payload=False)
        ev.extra["orig_variant_violation_found"] = r0.violation
        if not r0.violation:
            raise vlib.ToolError("sanity: TLC no longer refutes the pinned commit's branch order")
        ev.sample(gcases[7])
        if pid == "C19":
            # --- planner
            r = tlc("MC_PlanSpec", "MC_PlanSpec.cfg", workers=12, timeout=3000, xmx="8g")
            ev.tlc(r)
            if r.violation:
                vd.nonconformance(f"TLC: PlanSpec {r.violation}")
            pcases = r.payloads.get("CASE", [])
            log(f"[{pid}] plan: {r.distinct} states, {len(pcases)} cases")
            _run_cases(vd, ev, bins["vh_plan"], "plan-cases", pcases, work, [str(vlib.seed())], "build_plan")
            ev.sample(pcases[len(pcases) // 3])
            # --- listing
            r = tlc("MC_Listing", "MC_Listing.cfg", workers=12, timeout=3000, xmx="8g")
            ev.tlc(r)
            if r.violation:
                vd.nonconformance(f"TLC: Listing {r.violation}")
            lcases = r.payloads.get("CASE", [])
            log(f"[{pid}] listing: {r.distinct} states, {len(lcases)} cases")
            _run_cases(vd, ev, bins["vh_plan"], "listing-cases", lcases, work, [], "parse_remote_meta_output")
            ev.sample(lcases[len(lcases) // 2])
        # --- code -> spec
        n = 30000 if tier == "quick" else 300000
        done, k = 0, 0
        while done < n:
            m = min(30000, n - done)
            tpath = os.path.join(work, f"rand{k}.ndjson")
            p = vlib.run_cmd([bins["vh_plan"], "plan-random", str(m), str(vlib.seed() * 7919 + k), tpath])
            if p.returncode != 0:
                vlib.harness_died(vd, "vh_plan plan-random", p)
                return vd.finish()
            r = tlc("PlanTrace", "PlanTrace.cfg", workers=1, timeout=1500, env_extra={"TRACE": tpath}, depth_first=True)
            res = r.payloads.get("RESULT", [])
            if not res or res[0]["n"] != m:
                raise vlib.ToolError("PlanTrace did not consume the whole trace")
            lines = open(tpath).read().splitlines()
            for b in res[0]["bad"]:
                rec = json.loads(lines[b - 1])
                vd.violation(f"random-{k}-{b}", f"real {rec['ev']} result differs from the definition: {lines[b-1][:300]}",
                             {"kind": "plan-random", "record": rec})
            if k == 0:
                ev.sample(json.loads(lines[2]))
            ev.add(evaluations=m, traces_validated_against_impl=m)
            done += m
            k += 1
        if pid == "C19":
          ev.add(rule="TLC enumerates all patterns x texts over {a,b,*,?,.,/} up to length L (3 quick / 4 thorough), all paths of "
                    "the Rels universe, all src/dst maps over 3 paths x 3 metas x 6 exclude lists x delete, all listings of <= 2 "
                    "records over 13 names x 3 sizes x 4 timestamps; every case runs on the real function. non-trivial = pattern "
                    "matches some but not all texts / plan has >= 1 action / listing has >= 1 record. Plus seeded larger cases "
                    "validated by TLC against the definitions.", exhaustive=True)
          ev.assumptions += ["plan.rs / meta.rs compiled into the harness unchanged via #[path]",
                             "'sorted' is PathBuf (component-wise) order (DESIGN A11)"]
    finally:
        shutil.rmtree(work, ignore_errors=True)
    return vd.finish() if finish else 0


def replay(path):
    print(json.dumps(json.load(open(path)), indent=1)[:3000])
    return 0
