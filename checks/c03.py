import hub_common


def run(tier):
    return hub_common.run("C03", tier)


def replay(path):
    return hub_common.replay(path)
