import bisync_common


def run(tier):
    return bisync_common.run("C07", tier)


def replay(path):
    return bisync_common.replay(path)
