/* copia_shim.so - LD_PRELOAD observation / control shim for the unmodified `copia` binary (DESIGN section 8).
 *
 * Tracked calls: the libc file-system calls on paths under COPIA_SHIM_ROOTS (':'-separated absolute prefixes), calls
 * on descriptors opened from such paths, and - when COPIA_SHIM_STDIO=1 - read(0)/write(1) (request/reply markers) and
 * writes to pipes (COPIA_SHIM_PIPES=1, for push streams).
 *
 * Modes (combinable):
 *   COPIA_SHIM_LOG=<file>    append one JSON line per tracked call after it returned
 *                            {"pid","tid","seq","call","path","path2","fd","n","flags","ret","err","mut"}
 *   COPIA_SHIM_KILL=<k>      SIGKILL this process immediately BEFORE its k-th mutating tracked call
 *                            (only in processes whose /proc/self/comm equals COPIA_SHIM_KILL_COMM, default "copia")
 *   COPIA_SHIM_SOCK=<path>   schedule mode: every tracked call of every thread is announced on a per-thread
 *                            connection to the controller ("A pid tid seq mut call fd n path|path2\n") and
 *                            blocks until the controller answers 'g' (go) or 'k' (die now).  After the call
 *                            returned the result is reported ("R pid tid seq ret err\n").  flock(LOCK_EX) is
 *                            probed non-blocking; on EWOULDBLOCK the shim reports "B ..." and re-announces, so a
 *                            process never sleeps in the kernel while it is scheduled out.
 */
#define _GNU_SOURCE
#include <dlfcn.h>
#include <errno.h>
#include <fcntl.h>
#include <limits.h>
#include <pthread.h>
#include <signal.h>
#include <stdarg.h>
#include <stdio.h>
#include <stdlib.h>
#include <string.h>
#include <sys/file.h>
#include <sys/socket.h>
#include <sys/stat.h>
#include <sys/syscall.h>
#include <sys/types.h>
#include <sys/un.h>
#include <unistd.h>

#define MAXFD 4096
#define MAXROOTS 8

static int inited = 0;
static int log_fd = -1;
static long kill_at = 0;
static int kill_here = 0;
static int want_stdio = 0, want_pipes = 0;
static char sock_path[512];
static int sched = 0;
static char *roots[MAXROOTS];
static size_t root_len[MAXROOTS];
static int nroots = 0;
static char *fdpath[MAXFD];
static pthread_mutex_t fd_mu = PTHREAD_MUTEX_INITIALIZER;
static long seq_ctr = 0, mut_ctr = 0;
static __thread int tl_sock = -1;
static __thread int tl_busy = 0;

#define REAL(name) static __typeof__(name) *real_##name; if (!real_##name) real_##name = dlsym(RTLD_NEXT, #name)

static void shim_init(void) {
    if (inited) return;
    inited = 1;
    const char *r = getenv("COPIA_SHIM_ROOTS");
    if (r) {
        char *dup = strdup(r), *save = NULL;
        for (char *t = strtok_r(dup, ":", &save); t && nroots < MAXROOTS; t = strtok_r(NULL, ":", &save)) {
            roots[nroots] = t; root_len[nroots] = strlen(t); nroots++;
        }
    }
    const char *l = getenv("COPIA_SHIM_LOG");
    if (l) log_fd = syscall(SYS_openat, AT_FDCWD, l, O_WRONLY | O_CREAT | O_APPEND | O_CLOEXEC, 0644);
    const char *k = getenv("COPIA_SHIM_KILL");
    if (k) kill_at = atol(k);
    const char *kc = getenv("COPIA_SHIM_KILL_COMM");
    char comm[64] = {0};
    int cf = syscall(SYS_openat, AT_FDCWD, "/proc/self/comm", O_RDONLY | O_CLOEXEC, 0);
    if (cf >= 0) { long n = syscall(SYS_read, cf, comm, sizeof comm - 1); if (n > 0 && comm[n - 1] == '\n') comm[n - 1] = 0; syscall(SYS_close, cf); }
    kill_here = strcmp(comm, kc ? kc : "copia") == 0;
    const char *s = getenv("COPIA_SHIM_SOCK");
    if (s && strlen(s) < sizeof sock_path) {
        const char *sc = getenv("COPIA_SHIM_SOCK_COMM");
        if (!sc || strcmp(comm, sc) == 0) { strcpy(sock_path, s); sched = 1; }
    }
    want_stdio = getenv("COPIA_SHIM_STDIO") != NULL;
    want_pipes = getenv("COPIA_SHIM_PIPES") != NULL;
}

static int under_roots(const char *abs) {
    for (int i = 0; i < nroots; i++) {
        if (root_len[i] == 1 && roots[i][0] == '/') return abs[0] == '/';       /* root "/" = everything */
        if (strncmp(abs, roots[i], root_len[i]) == 0 && (abs[root_len[i]] == '/' || abs[root_len[i]] == 0)) return 1;
    }
    return 0;
}

/* absolute form of (dirfd, path) without touching the file system beyond readlink of /proc/self/fd */
static int abs_path(int dirfd, const char *path, char *out, size_t cap) {
    if (!path) return 0;
    if (path[0] == '/') { snprintf(out, cap, "%s", path); return 1; }
    char base[PATH_MAX];
    if (dirfd == AT_FDCWD) {
        if (syscall(SYS_getcwd, base, sizeof base) < 0) return 0;
    } else {
        char lnk[64]; snprintf(lnk, sizeof lnk, "/proc/self/fd/%d", dirfd);
        long n = syscall(SYS_readlinkat, AT_FDCWD, lnk, base, sizeof base - 1);
        if (n < 0) return 0;
        base[n] = 0;
    }
    snprintf(out, cap, "%s/%s", base, path);
    return 1;
}

static void set_fd(int fd, const char *p) {
    if (fd < 0 || fd >= MAXFD) return;
    pthread_mutex_lock(&fd_mu);
    free(fdpath[fd]);
    fdpath[fd] = p ? strdup(p) : NULL;
    pthread_mutex_unlock(&fd_mu);
}
static int get_fd(int fd, char *out, size_t cap) {
    int ok = 0;
    if (fd < 0 || fd >= MAXFD) return 0;
    pthread_mutex_lock(&fd_mu);
    if (fdpath[fd]) { snprintf(out, cap, "%s", fdpath[fd]); ok = 1; }
    pthread_mutex_unlock(&fd_mu);
    return ok;
}

static void jesc(const char *s, char *out, size_t cap) {
    size_t o = 0;
    for (; s && *s && o + 8 < cap; s++) {
        unsigned char c = (unsigned char)*s;
        if (c == '"' || c == '\\') { out[o++] = '\\'; out[o++] = c; }
        else if (c < 0x20) { o += snprintf(out + o, cap - o, "\\u%04x", c); }
        else out[o++] = c;
    }
    out[o] = 0;
}

static long gettid_(void) { return syscall(SYS_gettid); }

static int sched_connect(void) {
    if (tl_sock >= 0) return tl_sock;
    int s = syscall(SYS_socket, AF_UNIX, SOCK_STREAM | SOCK_CLOEXEC, 0);
    if (s < 0) return -1;
    struct sockaddr_un a; memset(&a, 0, sizeof a); a.sun_family = AF_UNIX; strcpy(a.sun_path, sock_path);
    if (syscall(SYS_connect, s, &a, sizeof a) < 0) { syscall(SYS_close, s); return -1; }
    tl_sock = s;
    return s;
}
static void sock_send(const char *buf, size_t n) {
    int s = sched_connect();
    if (s < 0) return;
    size_t off = 0;
    while (off < n) { long w = syscall(SYS_sendto, s, buf + off, n - off, MSG_NOSIGNAL, NULL, 0); if (w <= 0) return; off += w; }
}
static char sock_wait(void) {
    int s = sched_connect();
    if (s < 0) return 'g';
    char c = 'g';
    long r;
    do { r = syscall(SYS_recvfrom, s, &c, 1, 0, NULL, NULL); } while (r < 0 && errno == EINTR);
    if (r <= 0) return 'g';
    return c;
}

struct ev { const char *call; const char *path; const char *path2; int fd; long n; int flags; int mut; long seq; };

/* before the call: kill point, schedule point */
static void pre(struct ev *e) {
    e->seq = __sync_add_and_fetch(&seq_ctr, 1);
    if (e->mut && kill_at > 0 && kill_here) {
        long m = __sync_add_and_fetch(&mut_ctr, 1);
        if (m == kill_at) { syscall(SYS_kill, syscall(SYS_getpid), SIGKILL); for (;;) pause(); }
    }
    if (sched) {
        char p1[PATH_MAX * 2], p2[PATH_MAX * 2], buf[PATH_MAX * 4 + 256];
        jesc(e->path ? e->path : "", p1, sizeof p1); jesc(e->path2 ? e->path2 : "", p2, sizeof p2);
        int n = snprintf(buf, sizeof buf, "A %ld %ld %ld %d %s %d %ld %s|%s\n", (long)getpid(), gettid_(), e->seq, e->mut, e->call, e->fd, e->n, p1, p2);
        sock_send(buf, n);
        char c = sock_wait();
        if (c == 'k') { syscall(SYS_kill, syscall(SYS_getpid), SIGKILL); for (;;) pause(); }
    }
}
static void post(struct ev *e, long ret, int err) {
    if (log_fd >= 0) {
        char p1[PATH_MAX * 2], p2[PATH_MAX * 2], buf[PATH_MAX * 4 + 512];
        jesc(e->path ? e->path : "", p1, sizeof p1); jesc(e->path2 ? e->path2 : "", p2, sizeof p2);
        int n = snprintf(buf, sizeof buf,
            "{\"pid\":%ld,\"tid\":%ld,\"seq\":%ld,\"call\":\"%s\",\"path\":\"%s\",\"path2\":\"%s\",\"fd\":%d,\"n\":%ld,\"flags\":%d,\"ret\":%ld,\"err\":%d,\"mut\":%d}\n",
            (long)getpid(), gettid_(), e->seq, e->call, p1, p2, e->fd, e->n, e->flags, ret, ret < 0 ? err : 0, e->mut);
        syscall(SYS_write, log_fd, buf, n);
    }
    if (sched) {
        char buf[128];
        int n = snprintf(buf, sizeof buf, "R %ld %ld %ld %ld %d\n", (long)getpid(), gettid_(), e->seq, ret, ret < 0 ? err : 0);
        sock_send(buf, n);
    }
}

#define ENTER() int _busy = tl_busy; tl_busy = 1; shim_init()
#define LEAVE() tl_busy = _busy
#define ACTIVE() (!_busy && (nroots > 0))

/* ------------------------------------------------------------------ open family */
static int open_common(const char *name, int dirfd, const char *path, int flags, mode_t mode,
                       int (*do_open)(int, const char *, int, mode_t)) {
    ENTER();
    char ab[PATH_MAX * 2];
    int track = ACTIVE() && abs_path(dirfd, path, ab, sizeof ab) && under_roots(ab);
    if (!track) { int r = do_open(dirfd, path, flags, mode); LEAVE(); return r; }
    int mut = (flags & (O_WRONLY | O_RDWR | O_CREAT | O_TRUNC)) != 0 && !(flags & O_DIRECTORY);
    struct ev e = { name, ab, NULL, -1, 0, flags, mut, 0 };
    pre(&e);
    int r = do_open(dirfd, path, flags, mode);
    int err = errno;
    if (r >= 0) set_fd(r, ab);
    e.fd = r;
    post(&e, r, err);
    errno = err;
    LEAVE();
    return r;
}
static int do_openat_real(int dirfd, const char *path, int flags, mode_t mode) {
    REAL(openat);
    return real_openat(dirfd, path, flags, mode);
}
int open(const char *path, int flags, ...) { mode_t m = 0; if (flags & (O_CREAT | O_TMPFILE)) { va_list a; va_start(a, flags); m = va_arg(a, mode_t); va_end(a); } return open_common("open", AT_FDCWD, path, flags, m, do_openat_real); }
int open64(const char *path, int flags, ...) { mode_t m = 0; if (flags & (O_CREAT | O_TMPFILE)) { va_list a; va_start(a, flags); m = va_arg(a, mode_t); va_end(a); } return open_common("open", AT_FDCWD, path, flags | O_LARGEFILE, m, do_openat_real); }
int openat(int dirfd, const char *path, int flags, ...) { mode_t m = 0; if (flags & (O_CREAT | O_TMPFILE)) { va_list a; va_start(a, flags); m = va_arg(a, mode_t); va_end(a); } return open_common("open", dirfd, path, flags, m, do_openat_real); }
int openat64(int dirfd, const char *path, int flags, ...) { mode_t m = 0; if (flags & (O_CREAT | O_TMPFILE)) { va_list a; va_start(a, flags); m = va_arg(a, mode_t); va_end(a); } return open_common("open", dirfd, path, flags | O_LARGEFILE, m, do_openat_real); }
int creat(const char *path, mode_t mode) { return open_common("open", AT_FDCWD, path, O_CREAT | O_WRONLY | O_TRUNC, mode, do_openat_real); }
int creat64(const char *path, mode_t mode) { return open_common("open", AT_FDCWD, path, O_CREAT | O_WRONLY | O_TRUNC | O_LARGEFILE, mode, do_openat_real); }

int close(int fd) {
    REAL(close);
    ENTER();
    char p[PATH_MAX * 2];
    if (ACTIVE() && get_fd(fd, p, sizeof p)) {
        set_fd(fd, NULL);
        if (log_fd >= 0) { struct ev e = { "close", p, NULL, fd, 0, 0, 0, __sync_add_and_fetch(&seq_ctr, 1) }; int r = real_close(fd); int err = errno; int s = sched; sched = 0; post(&e, r, err); sched = s; errno = err; LEAVE(); return r; }
    }
    int r = real_close(fd);
    LEAVE();
    return r;
}

/* ------------------------------------------------------------------ data path */
static int is_pipe(int fd) { struct stat st; if (fstat(fd, &st) != 0) return 0; return S_ISFIFO(st.st_mode); }

ssize_t write(int fd, const void *buf, size_t n) {
    REAL(write);
    ENTER();
    char p[PATH_MAX * 2];
    int tracked = ACTIVE() && get_fd(fd, p, sizeof p);
    int stdio = !_busy && want_stdio && fd == 1;
    int pipew = !_busy && !tracked && !stdio && want_pipes && fd > 2 && is_pipe(fd);
    if (!tracked && !stdio && !pipew) { ssize_t r = real_write(fd, buf, n); LEAVE(); return r; }
    struct ev e = { stdio ? "write1" : (pipew ? "pipewrite" : "write"), tracked ? p : "", NULL, fd, (long)n, 0, (tracked || pipew) ? 1 : 0, 0 };
    pre(&e);
    ssize_t r = real_write(fd, buf, n);
    int err = errno;
    post(&e, r, err);
    errno = err;
    LEAVE();
    return r;
}
ssize_t pwrite(int fd, const void *buf, size_t n, off_t off) {
    REAL(pwrite);
    ENTER();
    char p[PATH_MAX * 2];
    if (!(ACTIVE() && get_fd(fd, p, sizeof p))) { ssize_t r = real_pwrite(fd, buf, n, off); LEAVE(); return r; }
    struct ev e = { "write", p, NULL, fd, (long)n, 0, 1, 0 };
    pre(&e); ssize_t r = real_pwrite(fd, buf, n, off); int err = errno; post(&e, r, err); errno = err; LEAVE(); return r;
}
ssize_t pwrite64(int fd, const void *buf, size_t n, off64_t off) {
    REAL(pwrite64);
    ENTER();
    char p[PATH_MAX * 2];
    if (!(ACTIVE() && get_fd(fd, p, sizeof p))) { ssize_t r = real_pwrite64(fd, buf, n, off); LEAVE(); return r; }
    struct ev e = { "write", p, NULL, fd, (long)n, 0, 1, 0 };
    pre(&e); ssize_t r = real_pwrite64(fd, buf, n, off); int err = errno; post(&e, r, err); errno = err; LEAVE(); return r;
}
ssize_t read(int fd, void *buf, size_t n) {
    REAL(read);
    ENTER();
    char p[PATH_MAX * 2];
    int stdio = !_busy && want_stdio && fd == 0;
    int tracked = !_busy && sched && nroots > 0 && get_fd(fd, p, sizeof p);
    if (!stdio && !tracked) { ssize_t r = real_read(fd, buf, n); LEAVE(); return r; }
    struct ev e = { stdio ? "read0" : "read", tracked ? p : "", NULL, fd, (long)n, 0, 0, 0 };
    pre(&e); ssize_t r = real_read(fd, buf, n); int err = errno; post(&e, r, err); errno = err; LEAVE(); return r;
}
ssize_t copy_file_range(int fin, off64_t *oin, int fout, off64_t *oout, size_t n, unsigned int fl) {
    REAL(copy_file_range);
    ENTER();
    char p[PATH_MAX * 2], q[PATH_MAX * 2];
    int t_out = ACTIVE() && get_fd(fout, p, sizeof p);
    if (!t_out) { ssize_t r = real_copy_file_range(fin, oin, fout, oout, n, fl); LEAVE(); return r; }
    if (!get_fd(fin, q, sizeof q)) q[0] = 0;
    struct ev e = { "copy_file_range", p, q, fout, (long)n, 0, 1, 0 };
    pre(&e); ssize_t r = real_copy_file_range(fin, oin, fout, oout, n, fl); int err = errno; post(&e, r, err); errno = err; LEAVE(); return r;
}
ssize_t sendfile(int fout, int fin, off_t *off, size_t n) {
    REAL(sendfile);
    ENTER();
    char p[PATH_MAX * 2], q[PATH_MAX * 2];
    int t_out = ACTIVE() && get_fd(fout, p, sizeof p);
    int t_in = ACTIVE() && get_fd(fin, q, sizeof q);
    int stdio = !_busy && want_stdio && fout == 1;
    if (!t_out && !(stdio && t_in)) { ssize_t r = real_sendfile(fout, fin, off, n); LEAVE(); return r; }
    struct ev e = { t_out ? "sendfile" : "sendfile1", t_out ? p : q, t_out ? (t_in ? q : "") : "", fout, (long)n, 0, t_out ? 1 : 0, 0 };
    pre(&e); ssize_t r = real_sendfile(fout, fin, off, n); int err = errno; post(&e, r, err); errno = err; LEAVE(); return r;
}
ssize_t sendfile64(int fout, int fin, off64_t *off, size_t n) {
    REAL(sendfile64);
    ENTER();
    char p[PATH_MAX * 2], q[PATH_MAX * 2];
    int t_out = ACTIVE() && get_fd(fout, p, sizeof p);
    int t_in = ACTIVE() && get_fd(fin, q, sizeof q);
    int stdio = !_busy && want_stdio && fout == 1;
    if (!t_out && !(stdio && t_in)) { ssize_t r = real_sendfile64(fout, fin, off, n); LEAVE(); return r; }
    struct ev e = { t_out ? "sendfile" : "sendfile1", t_out ? p : q, t_out ? (t_in ? q : "") : "", fout, (long)n, 0, t_out ? 1 : 0, 0 };
    pre(&e); ssize_t r = real_sendfile64(fout, fin, off, n); int err = errno; post(&e, r, err); errno = err; LEAVE(); return r;
}

#define FD_CALL(NAME, LABEL, MUT) \
int NAME(int fd) { REAL(NAME); ENTER(); char p[PATH_MAX * 2]; \
    if (!(ACTIVE() && get_fd(fd, p, sizeof p))) { int r = real_##NAME(fd); LEAVE(); return r; } \
    struct ev e = { LABEL, p, NULL, fd, 0, 0, MUT, 0 }; pre(&e); int r = real_##NAME(fd); int err = errno; post(&e, r, err); errno = err; LEAVE(); return r; }
FD_CALL(fsync, "fsync", 1)
FD_CALL(fdatasync, "fsync", 1)

int ftruncate(int fd, off_t len) { REAL(ftruncate); ENTER(); char p[PATH_MAX * 2];
    if (!(ACTIVE() && get_fd(fd, p, sizeof p))) { int r = real_ftruncate(fd, len); LEAVE(); return r; }
    struct ev e = { "ftruncate", p, NULL, fd, (long)len, 0, 1, 0 }; pre(&e); int r = real_ftruncate(fd, len); int err = errno; post(&e, r, err); errno = err; LEAVE(); return r; }
int ftruncate64(int fd, off64_t len) { REAL(ftruncate64); ENTER(); char p[PATH_MAX * 2];
    if (!(ACTIVE() && get_fd(fd, p, sizeof p))) { int r = real_ftruncate64(fd, len); LEAVE(); return r; }
    struct ev e = { "ftruncate", p, NULL, fd, (long)len, 0, 1, 0 }; pre(&e); int r = real_ftruncate64(fd, len); int err = errno; post(&e, r, err); errno = err; LEAVE(); return r; }
int fchmod(int fd, mode_t m) { REAL(fchmod); ENTER(); char p[PATH_MAX * 2];
    if (!(ACTIVE() && get_fd(fd, p, sizeof p))) { int r = real_fchmod(fd, m); LEAVE(); return r; }
    struct ev e = { "fchmod", p, NULL, fd, (long)m, 0, 0, 0 }; pre(&e); int r = real_fchmod(fd, m); int err = errno; post(&e, r, err); errno = err; LEAVE(); return r; }
int futimens(int fd, const struct timespec t[2]) { REAL(futimens); ENTER(); char p[PATH_MAX * 2];
    if (!(ACTIVE() && get_fd(fd, p, sizeof p))) { int r = real_futimens(fd, t); LEAVE(); return r; }
    struct ev e = { "utimens", p, NULL, fd, t ? (long)t[1].tv_sec : 0, 0, 1, 0 }; pre(&e); int r = real_futimens(fd, t); int err = errno; post(&e, r, err); errno = err; LEAVE(); return r; }
int utimensat(int dirfd, const char *path, const struct timespec t[2], int fl) { REAL(utimensat); ENTER(); char ab[PATH_MAX * 2];
    if (!(ACTIVE() && abs_path(dirfd, path, ab, sizeof ab) && under_roots(ab))) { int r = real_utimensat(dirfd, path, t, fl); LEAVE(); return r; }
    struct ev e = { "utimens", ab, NULL, -1, t ? (long)t[1].tv_sec : 0, 0, 1, 0 }; pre(&e); int r = real_utimensat(dirfd, path, t, fl); int err = errno; post(&e, r, err); errno = err; LEAVE(); return r; }

int flock(int fd, int op) {
    REAL(flock);
    ENTER();
    char p[PATH_MAX * 2];
    if (!(ACTIVE() && get_fd(fd, p, sizeof p))) { int r = real_flock(fd, op); LEAVE(); return r; }
    struct ev e = { (op & LOCK_UN) ? "funlock" : "flock", p, NULL, fd, op, 0, 0, 0 };
    int r, err;
    if (sched && (op & LOCK_EX) && !(op & LOCK_NB)) {
        for (;;) {
            pre(&e);
            r = real_flock(fd, op | LOCK_NB); err = errno;
            if (r == 0 || err != EWOULDBLOCK) break;
            char buf[128]; int n = snprintf(buf, sizeof buf, "B %ld %ld %ld\n", (long)getpid(), gettid_(), e.seq);
            sock_send(buf, n);
        }
    } else { pre(&e); r = real_flock(fd, op); err = errno; }
    post(&e, r, err);
    errno = err;
    LEAVE();
    return r;
}

/* ------------------------------------------------------------------ name space */
int rename(const char *a, const char *b) { REAL(rename); ENTER(); char pa[PATH_MAX * 2], pb[PATH_MAX * 2];
    int ta = ACTIVE() && abs_path(AT_FDCWD, a, pa, sizeof pa) && abs_path(AT_FDCWD, b, pb, sizeof pb) && (under_roots(pa) || under_roots(pb));
    if (!ta) { int r = real_rename(a, b); LEAVE(); return r; }
    struct ev e = { "rename", pa, pb, -1, 0, 0, 1, 0 }; pre(&e); int r = real_rename(a, b); int err = errno; post(&e, r, err); errno = err; LEAVE(); return r; }
int renameat(int da, const char *a, int db, const char *b) { REAL(renameat); ENTER(); char pa[PATH_MAX * 2], pb[PATH_MAX * 2];
    int ta = ACTIVE() && abs_path(da, a, pa, sizeof pa) && abs_path(db, b, pb, sizeof pb) && (under_roots(pa) || under_roots(pb));
    if (!ta) { int r = real_renameat(da, a, db, b); LEAVE(); return r; }
    struct ev e = { "rename", pa, pb, -1, 0, 0, 1, 0 }; pre(&e); int r = real_renameat(da, a, db, b); int err = errno; post(&e, r, err); errno = err; LEAVE(); return r; }
int renameat2(int da, const char *a, int db, const char *b, unsigned int fl) { REAL(renameat2); ENTER(); char pa[PATH_MAX * 2], pb[PATH_MAX * 2];
    int ta = ACTIVE() && abs_path(da, a, pa, sizeof pa) && abs_path(db, b, pb, sizeof pb) && (under_roots(pa) || under_roots(pb));
    if (!ta) { int r = real_renameat2(da, a, db, b, fl); LEAVE(); return r; }
    struct ev e = { "rename", pa, pb, -1, 0, (int)fl, 1, 0 }; pre(&e); int r = real_renameat2(da, a, db, b, fl); int err = errno; post(&e, r, err); errno = err; LEAVE(); return r; }
int unlink(const char *a) { REAL(unlink); ENTER(); char pa[PATH_MAX * 2];
    if (!(ACTIVE() && abs_path(AT_FDCWD, a, pa, sizeof pa) && under_roots(pa))) { int r = real_unlink(a); LEAVE(); return r; }
    struct ev e = { "unlink", pa, NULL, -1, 0, 0, 1, 0 }; pre(&e); int r = real_unlink(a); int err = errno; post(&e, r, err); errno = err; LEAVE(); return r; }
int unlinkat(int d, const char *a, int fl) { REAL(unlinkat); ENTER(); char pa[PATH_MAX * 2];
    if (!(ACTIVE() && abs_path(d, a, pa, sizeof pa) && under_roots(pa))) { int r = real_unlinkat(d, a, fl); LEAVE(); return r; }
    struct ev e = { (fl & AT_REMOVEDIR) ? "rmdir" : "unlink", pa, NULL, -1, 0, fl, 1, 0 }; pre(&e); int r = real_unlinkat(d, a, fl); int err = errno; post(&e, r, err); errno = err; LEAVE(); return r; }
int rmdir(const char *a) { REAL(rmdir); ENTER(); char pa[PATH_MAX * 2];
    if (!(ACTIVE() && abs_path(AT_FDCWD, a, pa, sizeof pa) && under_roots(pa))) { int r = real_rmdir(a); LEAVE(); return r; }
    struct ev e = { "rmdir", pa, NULL, -1, 0, 0, 1, 0 }; pre(&e); int r = real_rmdir(a); int err = errno; post(&e, r, err); errno = err; LEAVE(); return r; }
int mkdir(const char *a, mode_t m) { REAL(mkdir); ENTER(); char pa[PATH_MAX * 2];
    if (!(ACTIVE() && abs_path(AT_FDCWD, a, pa, sizeof pa) && under_roots(pa))) { int r = real_mkdir(a, m); LEAVE(); return r; }
    struct ev e = { "mkdir", pa, NULL, -1, 0, 0, 1, 0 }; pre(&e); int r = real_mkdir(a, m); int err = errno; post(&e, r, err); errno = err; LEAVE(); return r; }
int mkdirat(int d, const char *a, mode_t m) { REAL(mkdirat); ENTER(); char pa[PATH_MAX * 2];
    if (!(ACTIVE() && abs_path(d, a, pa, sizeof pa) && under_roots(pa))) { int r = real_mkdirat(d, a, m); LEAVE(); return r; }
    struct ev e = { "mkdir", pa, NULL, -1, 0, 0, 1, 0 }; pre(&e); int r = real_mkdirat(d, a, m); int err = errno; post(&e, r, err); errno = err; LEAVE(); return r; }
int symlink(const char *t, const char *a) { REAL(symlink); ENTER(); char pa[PATH_MAX * 2];
    if (!(ACTIVE() && abs_path(AT_FDCWD, a, pa, sizeof pa) && under_roots(pa))) { int r = real_symlink(t, a); LEAVE(); return r; }
    struct ev e = { "symlink", pa, t, -1, 0, 0, 1, 0 }; pre(&e); int r = real_symlink(t, a); int err = errno; post(&e, r, err); errno = err; LEAVE(); return r; }
int link(const char *o, const char *a) { REAL(link); ENTER(); char pa[PATH_MAX * 2];
    if (!(ACTIVE() && abs_path(AT_FDCWD, a, pa, sizeof pa) && under_roots(pa))) { int r = real_link(o, a); LEAVE(); return r; }
    struct ev e = { "link", pa, o, -1, 0, 0, 1, 0 }; pre(&e); int r = real_link(o, a); int err = errno; post(&e, r, err); errno = err; LEAVE(); return r; }

/* metadata reads are scheduling points too (hub Get: stat / hash / open are three separate looks) */
int statx(int d, const char *a, int fl, unsigned int mask, struct statx *st) {
    REAL(statx);
    ENTER();
    char pa[PATH_MAX * 2];
    if (!(ACTIVE() && a && a[0] && abs_path(d, a, pa, sizeof pa) && under_roots(pa))) { int r = real_statx(d, a, fl, mask, st); LEAVE(); return r; }
    struct ev e = { "stat", pa, NULL, -1, 0, fl, 0, 0 }; pre(&e); int r = real_statx(d, a, fl, mask, st); int err = errno; post(&e, r, err); errno = err; LEAVE(); return r;
}
