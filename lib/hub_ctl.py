"""Binding S, schedule mode, for the hub: N real `copia serve ROOT` processes run under the LD_PRELOAD shim, every
tracked libc call of every server blocks until this controller grants it, so the controller - not the OS - chooses
the interleaving.  The controller also plays the clients (real wire format) and snapshots the tree byte-exactly after
every visible step, while all servers are parked at their next call."""
import json
import os
import select
import shutil
import socket
import struct
import subprocess
import time

import cborlite as cb

MAGIC = b"COPIA1"
STG = ".copia-tmp"


class Server:
    def __init__(self, sid, proc):
        self.sid = sid
        self.proc = proc
        self.conn = None
        self.rbuf = b""
        self.pending = None          # announced call awaiting a grant: dict
        self.alive = True
        self.stdin_open = True
        self.in_avail = 0            # bytes written to its stdin and not yet consumed by read(0)
        self.outbuf = b""
        self.to_send = []            # list of (bytes, op id or None, is_last_piece) still to be fed to stdin
        self.blocked_on_lock = False
        self.exit = None
        self.steps = 0


class HubRun:
    def __init__(self, copia, shim, root, nservers, workdir, contents):
        self.root = root
        self.contents = contents      # name -> bytes of the known complete contents
        self.by_bytes = {v: k for k, v in contents.items()}
        self.sock_path = os.path.join(workdir, "ctl.sock")
        if os.path.exists(self.sock_path):
            os.unlink(self.sock_path)
        self.lsock = socket.socket(socket.AF_UNIX, socket.SOCK_STREAM)
        self.lsock.bind(self.sock_path)
        self.lsock.listen(16)
        env = dict(os.environ)
        env.update({"LD_PRELOAD": shim, "COPIA_SHIM_ROOTS": root, "COPIA_SHIM_SOCK": self.sock_path, "COPIA_SHIM_STDIO": "1",
                    "COPIA_SHIM_SOCK_COMM": "copia", "RUST_LOG": "off"})
        self.servers = []
        self.by_pid = {}
        for i in range(nservers):
            p = subprocess.Popen([copia, "serve", root], stdin=subprocess.PIPE, stdout=subprocess.PIPE, stderr=subprocess.PIPE, env=env)
            os.set_blocking(p.stdout.fileno(), False)
            try:
                # requests are written while the server may be held at a scheduling point: the pipe must take a whole one
                import fcntl
                fcntl.fcntl(p.stdin.fileno(), 1031, 1 << 20)       # F_SETPIPE_SZ
            except OSError:
                pass
            s = Server(i + 1, p)
            self.servers.append(s)
            self.by_pid[p.pid] = s
        self.unassigned = []          # accepted connections whose pid is not known yet
        self.trace = []               # visible steps: dicts
        self.history = []             # call / ret events
        self.snapshots_bad = []
        self.opseq = 0
        self.pending_ops = {}         # sid -> list of op ids awaiting replies (in order)
        self.deadline = time.time() + 30

    # ---------------------------------------------------------------- plumbing
    def _pump(self, timeout=0.5):
        """read whatever the shim connections have to say; returns when every live server is parked or gone"""
        t_end = time.time() + timeout
        while True:
            if all((not s.alive) or s.pending is not None for s in self.servers):
                return True
            rl = [self.lsock] + [c for c, _ in self.unassigned] + [s.conn for s in self.servers if s.conn]
            r, _, _ = select.select(rl, [], [], 0.05)
            for x in r:
                if x is self.lsock:
                    c, _ = self.lsock.accept()
                    self.unassigned.append((c, b""))
                else:
                    self._read_conn(x)
            for s in self.servers:
                if s.alive and s.proc.poll() is not None and s.pending is None:
                    # drain: the process is gone
                    s.alive = False
                    s.exit = s.proc.returncode
            if time.time() > t_end:
                return all((not s.alive) or s.pending is not None for s in self.servers)

    def _read_conn(self, c):
        try:
            data = c.recv(65536)
        except OSError:
            data = b""
        owner = None
        for s in self.servers:
            if s.conn is c:
                owner = s
        if owner is None:
            for i, (uc, buf) in enumerate(self.unassigned):
                if uc is c:
                    buf += data
                    if b"\n" in buf:
                        pid = int(buf.split(b" ")[1])
                        s = self.by_pid.get(pid)
                        self.unassigned.pop(i)
                        if s is None or s.conn is not None:
                            # a second thread of a server, or a stranger: let it run freely
                            self._free_run(c, buf)
                            return
                        s.conn = c
                        s.rbuf = buf
                        self._parse(s)
                    else:
                        self.unassigned[i] = (uc, buf)
                    return
            return
        if not data:
            owner.conn = None
            return
        owner.rbuf += data
        self._parse(owner)

    def _free_run(self, c, buf):
        # never expected for `serve` (all tracked calls are on one thread); grant everything
        try:
            while True:
                while b"\n" in buf:
                    line, buf = buf.split(b"\n", 1)
                    if line.startswith(b"A "):
                        c.sendall(b"g")
                d = c.recv(65536)
                if not d:
                    return
                buf += d
        except OSError:
            return

    def _parse(self, s):
        while b"\n" in s.rbuf:
            line, s.rbuf = s.rbuf.split(b"\n", 1)
            parts = line.decode("utf8", "replace").split(" ", 8)
            if parts[0] == "A":
                _, pid, tid, seq, mut, call, fd, n, paths = parts
                p1, p2 = paths.split("|", 1)
                s.pending = {"call": call, "path": json.loads('"' + p1 + '"'), "path2": json.loads('"' + p2 + '"'), "n": int(n), "mut": int(mut), "seq": int(seq)}
            elif parts[0] == "R":
                s.last_ret = int(parts[4])
                s.last_err = int(parts[5]) if len(parts) > 5 else 0
                if s.last_call and s.last_call["call"] == "read0" and s.last_ret > 0:
                    s.in_avail -= s.last_ret
                if s.last_call and s.last_call["call"] == "flock" and s.last_ret == 0:
                    self.lock_holder = s.sid
                if s.last_call and s.last_call["call"] == "funlock":
                    if self.lock_holder == s.sid:
                        self.lock_holder = None
                s.blocked_on_lock = False
            elif parts[0] == "B":
                s.blocked_on_lock = True

    # ---------------------------------------------------------------- client side
    def queue_request(self, sid, op):
        """op: dict(kind, path, exp, content name, hashok, pieces, ...).  Bytes are fed when the scheduler says so."""
        s = self.servers[sid - 1]
        self.opseq += 1
        op = dict(op, id=self.opseq, sid=sid)
        frames = self._encode(op)
        for i, b in enumerate(frames):
            s.to_send.append((b, op["id"], i == len(frames) - 1, op))
        return op["id"]

    def _hash(self, name):
        return list(bytes.fromhex(self.hashes[name]))

    def _encode(self, op):
        k = op["kind"]
        if k == "hello":
            return [MAGIC + cb.frame({"Hello": {"version": 1}})]
        if k == "list":
            return [cb.frame("List")]
        if k == "bye":
            return [cb.frame("Bye")]
        if k == "get":
            return [cb.frame({"Get": {"path": op.get("wire", op["path"])}})]
        if k == "delete":
            return [cb.frame({"Delete": {"path": op.get("wire", op["path"]), "expected": self._hash(op["exp"]) if op["exp"] else None}})]
        if k == "put":
            data = self.contents[op["c"]]
            declared = self._hash(op["c"])
            if not op.get("hashok", True):
                data = data[:-1] + bytes([data[-1] ^ 0x55])      # the streamed bytes do not match the declared hash
            ln = len(data) + op.get("len_delta", 0)
            fr = cb.frame({"Put": {"path": op.get("wire", op["path"]), "expected": self._hash(op["exp"]) if op["exp"] else None, "len": ln, "hash": declared}})
            body = data if op.get("len_delta", 0) >= 0 else data     # short declared length: the server takes only `len` bytes
            n = max(1, op.get("pieces", 1))
            step = max(1, (len(body) + n - 1) // n)
            pieces = [body[i:i + step] for i in range(0, len(body), step)] or [b""]
            return [fr + pieces[0]] + pieces[1:]
        raise ValueError(k)

    def feed(self, s):
        """give the server the next piece of its input, if it has consumed everything so far"""
        if s.to_send and s.in_avail == 0 and s.stdin_open:
            b, oid, last, op = s.to_send.pop(0)
            try:
                s.proc.stdin.write(b)
                s.proc.stdin.flush()
            except (BrokenPipeError, OSError):
                s.stdin_open = False
                return False
            s.in_avail += len(b)
            if last and op["kind"] not in ("hello", "bye"):
                self.history.append({"t": "call", "id": oid, "sid": s.sid, "op": {k: v for k, v in op.items() if k in ("kind", "path", "exp", "c", "hashok", "len_delta")}})
                self.pending_ops.setdefault(s.sid, []).append(op)
            elif last and op["kind"] == "hello":
                self.pending_ops.setdefault(s.sid, []).append(op)
            return True
        return False

    def close_stdin(self, s):
        if s.stdin_open:
            try:
                s.proc.stdin.close()
            except OSError:
                pass
            s.stdin_open = False

    def _drain_stdout(self, s):
        try:
            d = s.proc.stdout.read()
        except (BlockingIOError, OSError):
            d = None
        if d:
            s.outbuf += d
        # parse complete reply frames
        while True:
            if len(s.outbuf) < 4:
                return
            n = struct.unpack(">I", s.outbuf[:4])[0]
            if len(s.outbuf) < 4 + n:
                return
            try:
                v, _ = cb.dec(s.outbuf[4:4 + n])
            except Exception:
                v = {"Undecodable": s.outbuf[4:4 + n][:40].hex()}
            consumed = 4 + n
            body = None
            if isinstance(v, dict) and "Content" in v:
                ln = v["Content"]["len"]
                if len(s.outbuf) < consumed + ln:
                    return           # wait for the body
                body = s.outbuf[consumed:consumed + ln]
                consumed += ln
            s.outbuf = s.outbuf[consumed:]
            ops = self.pending_ops.get(s.sid, [])
            op = ops.pop(0) if ops else None
            if op is not None and op["kind"] != "hello":
                self.history.append({"t": "ret", "id": op["id"], "sid": s.sid, "reply": self._abstract_reply(v, body)})

    def _flush_truncated(self, s):
        """The server has exited by itself and its reply stream ends inside a reply (typically a Content header that announces
        more bytes than follow): the request WAS answered - with fewer bytes than announced - and the history must say so."""
        if not s.outbuf or s.exit is None or s.exit < 0:
            return
        v = None
        try:
            n = struct.unpack(">I", s.outbuf[:4])[0]
            if len(s.outbuf) >= 4 + n:
                v, _ = cb.dec(s.outbuf[4:4 + n])
        except Exception:
            v = None
        if isinstance(v, dict) and "Content" in v:
            reply = self._abstract_reply(v, s.outbuf[4 + n:])
        else:
            reply = {"r": "other", "raw": "the reply stream ends inside a frame"}
        s.outbuf = b""
        ops = self.pending_ops.get(s.sid, [])
        op = ops.pop(0) if ops else None
        if op is not None and op["kind"] != "hello":
            self.history.append({"t": "ret", "id": op["id"], "sid": s.sid, "reply": reply})

    def _class_of_hash(self, h):
        if h is None:
            return "none"
        hx = bytes(h).hex()
        for name, v in self.hashes.items():
            if v == hx:
                return name
        return "unknown"

    def _abstract_reply(self, v, body):
        if isinstance(v, dict):
            if "PutResult" in v:
                r = v["PutResult"]
                return {"r": "committed" if r["committed"] else "conflict", "cur": self._class_of_hash(r["current"])}
            if "DeleteResult" in v:
                r = v["DeleteResult"]
                return {"r": "deleted" if r["deleted"] else "refused", "cur": self._class_of_hash(r["current"])}
            if "Content" in v:
                c = v["Content"]
                bcls = self.by_bytes.get(body, "torn")
                return {"r": "content", "hash": self._class_of_hash(c["hash"]), "len_ok": c["len"] == len(body),
                        "len_class": next((k for k, b in self.contents.items() if len(b) == c["len"]), "odd"), "body": bcls}
            if "Fingerprints" in v:
                return {"r": "list", "map": {k: self._class_of_hash(f["blake3"]) for k, f in v["Fingerprints"].items() if not k.endswith(STG)}}
            if "Error" in v:
                return {"r": "error", "msg": v["Error"]}
        return {"r": "other", "raw": str(v)[:80]}

    # ---------------------------------------------------------------- scheduling
    def classify(self, s):
        """visible = touches a shared object (staging / live / conflict names, the lock); everything else is private"""
        p = s.pending
        if p is None:
            return None
        call, path = p["call"], p["path"]
        rel = os.path.relpath(path, self.root) if path.startswith(self.root) else ""
        if call == "read" and getattr(self, "reads_visible", False) and rel and not rel.endswith(STG) and not rel.startswith(".copia"):
            # reads through a descriptor of a LIVE file are private as long as commits replace files by rename (the inode a
            # reader holds never changes); programs that test exactly that assumption schedule them
            return "visible"
        if call in ("read0", "write1", "sendfile1", "close", "fsync", "mkdir", "read"):
            return "private"
        if rel == ".copia/commit.lock" and call == "open" and getattr(self, "lock_open_visible", False):
            return "visible"        # lock-stress runs also schedule WHEN each server binds the lock's name to an inode
        if rel in (".", ".copia") or rel.startswith(".copia/") and call in ("open", "stat"):
            return "private"
        if call in ("flock", "funlock"):
            return "visible"
        if call in ("open", "stat") and self.lock_holder == s.sid and ".conflict-" in rel:
            return "private"        # the lock holder looking at the name its conflict-copy is about to take (one step with the rename, as in Hub.tla)
        if call == "open" and self.lock_holder == s.sid and not rel.endswith(STG):
            return "private"        # current_hash under the lock: the stat before it is the visible read of the live file
        if call in ("open", "write", "rename", "unlink", "stat", "ftruncate", "copy_file_range", "sendfile"):
            return "visible"
        return "private"

    def enabled(self, s):
        if not s.alive or s.pending is None:
            return False
        if s.pending["call"] == "read0":
            return s.in_avail > 0 or not s.stdin_open
        if s.pending["call"] == "flock":
            # the lock is NOT assumed to work: a server may probe whenever it has not already been told "blocked"
            # since the last unlock / death (a failed probe is not a step of the schedule)
            return not getattr(s, "lock_wait", False)
        return True

    def grant(self, s, kill=False):
        p = s.pending
        s.last_call = p
        s.pending = None
        s.steps += 1
        try:
            s.conn.sendall(b"k" if kill else b"g")
        except OSError:
            pass
        if kill:
            s.proc.wait()
            for x in self.servers:
                x.lock_wait = False
            if self.lock_holder == s.sid:
                self.lock_holder = None
            s.alive = False
            s.exit = s.proc.returncode
            self.close_stdin(s)
            return
        if p["call"] == "funlock":
            self.lock_free = True
            for x in self.servers:
                x.lock_wait = False
        if p["call"] == "flock":
            self.lock_free = False      # optimistic; a failed probe reports B and sets blocked_on_lock

    lock_free = True
    lock_holder = None

    def settle(self):
        """run every server through its private calls until each is parked on a visible call, waiting for input, or gone"""
        for _ in range(10000):
            self._pump()
            progressed = False
            for s in self.servers:
                if not s.alive:
                    continue
                self._drain_stdout(s)
                if s.pending is None:
                    continue
                if s.pending["call"] == "read0":
                    if s.in_avail == 0 and s.stdin_open:
                        if self.feed_policy(s):
                            progressed = True
                    if s.in_avail > 0 or not s.stdin_open:
                        self.grant(s)
                        progressed = True
                    continue
                if self.classify(s) == "private":
                    self.grant(s)
                    progressed = True
            if not progressed:
                self._pump(0.2)
                for s in self.servers:
                    self._drain_stdout(s)
                return

    def feed_policy(self, s):
        return self.feed(s)

    def snapshot(self):
        out = {}
        if getattr(self, "track_lock", False):
            # the hub's own lock file, when a program addresses it as an ordinary path (empty = version "c0")
            try:
                data = open(os.path.join(self.root, ".copia", "commit.lock"), "rb").read()
                out[".copia/commit.lock"] = self.by_bytes.get(data, "torn" if data else "c0")
            except OSError:
                pass
        for dp, dn, fn in os.walk(self.root):
            if os.path.relpath(dp, self.root).startswith(".copia"):
                continue
            for f in fn:
                p = os.path.join(dp, f)
                rel = os.path.relpath(p, self.root)
                try:
                    data = open(p, "rb").read()
                except OSError:
                    continue
                out[rel] = self.by_bytes.get(data, "torn" if data else "empty")
        return out

    def visible_servers(self):
        return [s for s in self.servers if s.alive and s.pending is not None and self.classify(s) == "visible" and self.enabled(s)]

    def run(self, choose, kill_plan=None, max_steps=400):
        """choose(list of candidate servers, step index) -> server.  kill_plan: {sid: visible-step index at which to kill it}"""
        self.settle()
        step = 0
        while step < max_steps and time.time() < self.deadline:
            cands = self.visible_servers()
            if not cands:
                # nobody parked on a visible call: either done, or everybody waits for input / the lock
                if all((not s.alive) or (s.pending and s.pending["call"] == "read0" and not s.to_send and s.in_avail == 0) for s in self.servers):
                    break
                blocked = [s for s in self.servers if s.alive and s.pending and s.pending["call"] == "flock"]
                if blocked and any(getattr(x, "lock_wait", False) for x in blocked):
                    holders_alive = any(x.alive and x.sid == self.lock_holder for x in self.servers) if self.lock_holder is not None else False
                    if not holders_alive or not any(x.alive and x.pending is not None and x is not b for b in blocked for x in self.servers if x not in blocked):
                        for x in blocked:
                            x.lock_wait = False     # the holder is gone (or nobody else can move): let them probe again
                        self.lock_holder = None if not holders_alive else self.lock_holder
                        if getattr(self, "_relock_tries", 0) > 50:
                            break
                        self._relock_tries = getattr(self, "_relock_tries", 0) + 1
                        continue
                self.settle()
                if not self.visible_servers():
                    break
                continue
            s = choose(cands, step)
            if s is None:           # the chooser itself acted (a kill taken from a model behaviour) and nobody can move now
                continue
            kill = kill_plan is not None and kill_plan.get(s.sid) == s.steps
            call = dict(s.pending)
            self.grant(s, kill=kill)
            self.settle()
            if call["call"] == "flock" and not kill and s.alive and s.blocked_on_lock and s.pending is not None and s.pending["call"] == "flock":
                # the probe found the lock held: nothing happened, the server waits for the next unlock
                s.lock_wait = True
                s.steps -= 1
                self.probes_failed = getattr(self, "probes_failed", 0) + 1
                continue
            snap = self.snapshot()
            torn = {k: v for k, v in snap.items() if not k.endswith(STG) and v in ("torn", "empty")}
            self.trace.append({"step": step, "sid": s.sid, "call": call["call"], "path": os.path.relpath(call["path"], self.root) if call["path"] else "",
                               "path2": os.path.relpath(call["path2"], self.root) if call["path2"] else "", "killed": kill, "snap": snap})
            if torn:
                self.snapshots_bad.append({"step": step, "torn": torn})
            step += 1
        # finish: say Bye / close stdin so that servers exit
        for s in self.servers:
            if s.alive:
                self.close_stdin(s)
        for _ in range(200):
            self.settle()
            for s in self.servers:
                if s.alive and s.pending is not None:
                    self.grant(s)
            if all(not s.alive or s.proc.poll() is not None for s in self.servers):
                break
        for s in self.servers:
            try:
                s.proc.wait(timeout=5)
            except subprocess.TimeoutExpired:
                s.proc.kill()
                s.proc.wait()
            s.exit = s.proc.returncode
            self._drain_stdout(s)
            self._flush_truncated(s)
        self.lsock.close()
        return self.snapshot()
