"""Executions of hub scenarios under the scheduling controller (one fresh set of server processes per execution)."""
import json
import os
import random
import shutil
import subprocess
from multiprocessing import Pool

import hub_ctl as hc

# c2 ends in a long run of zero bytes, c3 is nothing but zero bytes (sparse-file and "skip the zeros" shortcuts must
# still deliver every byte that was hashed)
CONTENTS = {"c1": b"A" * 9000 + b"one\n", "c2": b"B" * 12000 + b"two\n" + b"\0" * 150_000, "c3": b"\0" * 262_144}          # c3: exactly one 256 KiB block (chunked streaming must not drop a final full block)
CFG = {}
# Hub.tla's visible program counters -> the libc call the real server is parked on when it takes that step
LABEL_CALL = {"put": "open", "plock": "flock", "dlock": "flock", "pread": "stat", "dread": "stat", "pren": "rename",
              "punlock": "funlock", "dunlock": "funlock", "dunl": "unlink", "get": "open"}
LABEL_CH = 2                            # Ch of the MC_HubSched_*.cfg files

# programs mirrored from spec/MC_Hub.tla (server id -> list of requests)
PROGRAMS = {
    "putput": {1: [("put", "f", "c1", "c2")], 2: [("put", "f", "c1", "c3")]},
    "putget": {1: [("put", "f", "c1", "c2")], 2: [("get", "f")]},
    "putdel": {1: [("put", "f", "c1", "c2")], 2: [("delete", "f", "c1"), ("get", "f")]},
    "badput": {1: [("badput", "f", "c1", "c2")], 2: [("put", "f", "c1", "c3"), ("get", "f")]},
    "create": {1: [("put", "g", None, "c2")], 2: [("put", "g", None, "c2"), ("delete", "g", "c2")]},
    "badsame": {1: [("badput", "f", "c1", "c2")], 2: [("put", "f", "c1", "c2"), ("get", "f")]},
    "writeback": {1: [("put", "f", "c1", "c2")], 2: [("put", "f", "c1", "c1"), ("get", "f")]},
    "delwb": {1: [("delete", "f", "c1")], 2: [("put", "f", "c1", "c1"), ("get", "f")]},
}
# programs explored by the controller's own search only
EXTRA = {
    "putput_list": {1: [("put", "f", "c1", "c2"), ("put", "g", None, "c3")], 2: [("list",)]},
    "three": {1: [("put", "f", "c1", "c2")], 2: [("put", "f", "c1", "c3")], 3: [("get", "f"), ("put", "f", "c2", "c3")]},
    "lenshort": {1: [("shortput", "f", "c1", "c2"), ("get", "f")], 2: [("put", "f", "c1", "c3")]},
    "deldel": {1: [("delete", "f", "c1"), ("put", "f", None, "c2")], 2: [("delete", "f", "c1"), ("get", "f")]},
    "samecontent": {1: [("put", "f", "c1", "c2"), ("get", "f")], 2: [("put", "f", "c1", "c2"), ("list",)]},
}
CASRACE3 = {1: [("put", "f", "c1", "c2")], 2: [("put", "f", "c2", "c3")], 3: [("delete", "f", "c2"), ("get", "f")]}
PROGRAMS["casrace3"] = CASRACE3
LIST_RACE = {1: [("put", "f", "c1", "c2"), ("put", "g", "c1", "c3")], 2: [("list",)]}


def random_program(rng):
    """a seeded request program: 2-3 servers, 1-3 requests each, two paths, any expected / new content combination
    (write-backs, creates over existing files, deletes of absent files, ...); decided by the linearization search alone"""
    prog = {}
    for sid in range(1, rng.choice([2, 2, 3]) + 1):
        reqs = []
        for _ in range(rng.randint(1, 3)):
            path = rng.choice(["f", "f", "g"])
            r = rng.random()
            if r < 0.55:
                reqs.append(("put", path, rng.choice([None, "c1", "c1", "c2", "c3"]), rng.choice(["c1", "c2", "c3"])))
            elif r < 0.75:
                reqs.append(("delete", path, rng.choice([None, "c1", "c1", "c2", "c3"])))
            elif r < 0.93:
                reqs.append(("get", path))
            else:
                reqs.append(("badput", path, rng.choice([None, "c1", "c2"]), rng.choice(["c2", "c3"])))
        prog[sid] = reqs
    return prog


def init_worker(copia, shim, root, hashes):
    import multiprocessing
    ident = multiprocessing.current_process()._identity
    CFG.update(copia=copia, shim=shim, hashes=hashes, dir=os.path.join(root, f"w{ident[0] if ident else 0}"))


def conf_name(path, c):
    return f"{path}.conflict-{CFG['hashes'][c][:12]}"


def abstract_name(fname):
    """file name on the hub -> abstract name ("f" or "f#c2"); None for staging names and strangers"""
    if fname.endswith(hc.STG):
        return None
    for c, hx in CFG["hashes"].items():
        suf = f".conflict-{hx[:12]}"
        # (the base may itself be a conflict-copy's name that a client addressed as a path)
        if fname.endswith(suf):
            return abstract_name(fname[:-len(suf)]) + "#" + c
        # the name a conflict-copy takes when its usual name already holds other content
        if fname.endswith(suf + "-1"):
            return abstract_name(fname[:-len(suf) - 2]) + "#" + c + "~1"
    return fname


def execute(job):
    """job = dict(prog, program, order (list of server ids or None), seed, kill (sid, step) or None, init)"""
    d = CFG["dir"]
    shutil.rmtree(d, ignore_errors=True)
    os.makedirs(os.path.join(d, "root"))
    root = os.path.join(d, "root")
    init = job.get("init", {"f": "c1"})
    for n, c in init.items():
        if "#" in n:           # a file that sits, from the start, at the name a conflict-copy of <content> on <path> would take
            n = n.split("#")[0] + ".conflict-" + CFG["hashes"][n.split("#")[1]][:12]
        os.makedirs(os.path.dirname(os.path.join(root, n)), exist_ok=True)
        with open(os.path.join(root, n), "wb") as f:
            f.write(CONTENTS.get(c, b""))          # "c0" = the empty version (only the hub's lock file starts as it)
    dirs = {n[:i] for n in init for i, ch in enumerate(n) if ch == "/"}          # paths that are directories on the hub
    program = job["program"]
    n = max(program)
    # (a program may declare the EMPTY content a legitimate version: everywhere else an empty live file counts as torn)
    r = hc.HubRun(CFG["copia"], CFG["shim"], root, n, d, dict(CONTENTS, c0=b"") if job.get("allow_empty") else CONTENTS)
    r.hashes = CFG["hashes"]
    r.track_lock = bool(job.get("track_lock"))
    r.lock_open_visible = job.get("policy") in ("lock_stress", "lock_identity")
    r.reads_visible = bool(job.get("reads_visible"))
    ops = {}
    for sid in range(1, n + 1):
        r.queue_request(sid, {"kind": "hello"})
        for rq in program.get(sid, []):
            k = rq[0]
            wire = None
            if len(rq) > 1 and isinstance(rq[1], str) and "#" in rq[1]:
                # a client addressing, as an ordinary path, the very name a conflict-copy of <content> on <path> would take
                base, c = rq[1].split("#")
                wire = base + ".conflict-" + CFG["hashes"][c][:12]
            elif len(rq) > 1 and isinstance(rq[1], str) and not rq[1].startswith(".copia"):
                # another accepted spelling of the same file ("./f", "d//k", "d/./k"): the model knows it by its normal form
                import posixpath
                norm = posixpath.normpath(rq[1])
                if norm != rq[1]:
                    wire, rq = rq[1], (rq[0], norm) + tuple(rq[2:])
            if k in ("put", "badput", "shortput", "longput"):
                op = {"kind": "put", "path": rq[1], "exp": rq[2], "c": rq[3], "pieces": 2, "hashok": k != "badput"}
                if k == "badput":
                    op["wrong"] = "c1" if rq[3] != "c1" else "c2"
                if k == "shortput":
                    op["len_delta"] = -5
                # a Put aimed at a path that is a directory cannot take effect: like a bad Put it must be answered by an
                # error reply and change nothing
                # - and so must a Put into the hub's own control directory (.copia/): it holds the commit lock
                # - and a Put to a path one of whose leading components is a FILE on the hub (in the programs that do this the
                #   file is replaced but never removed)
                op["valid"] = (k == "put" and rq[1] not in dirs and rq[1].split("/")[0] != ".copia"
                               and not any(rq[1].startswith(n + "/") for n in init))
                op["conf"] = rq[1] + "#" + rq[3]
            elif k == "delete":
                op = {"kind": "delete", "path": rq[1], "exp": rq[2]}
            elif k == "get":
                op = {"kind": "get", "path": rq[1]}
            else:
                op = {"kind": "list"}
            if wire:
                op["wire"] = wire
            oid = r.queue_request(sid, op)
            ops[oid] = op
    order = job.get("order")
    rng = random.Random(job.get("seed", 0))
    kill = job.get("kill")

    state = {"phase": 0, "li": 0}
    labels = job.get("labels")          # [[server, pc], ...] of a HubSched behaviour (kill entries removed)
    nwr = {}
    killed = []

    def choose(cands, step):
        if job.get("policy") == "list_race":
            # adversarial corpus: server 2 (List) hashes f, then server 1 commits to f and to g, then server 2 hashes g
            by = {c.sid: c for c in cands}
            if state["phase"] == 0 and 2 in by:
                p = by[2].pending
                if p["call"] == "open" and p["path"].endswith("/g"):
                    state["phase"] = 1
                else:
                    return by[2]
            if state["phase"] <= 1 and 1 in by:
                state["phase"] = 1
                return by[1]
            return cands[0]
        if labels is not None:
            # spec -> code replay by ACTION LABEL (HubSched's history is <<server, pc>>): a model step is matched to the real call
            # it stands for, so a Put streamed in more write() calls than the model's Ch chunks, or a refused Delete (no unlink:
            # the model still spends its `dunl` step), no longer shifts every later step of the schedule
            while state["li"] < len(labels):
                sid, lab = labels[state["li"]]
                if lab == "kill":
                    # the model's Kill(s): the process dies where it is parked (its next call never happens), the lock it may hold is gone
                    state["li"] += 1
                    srv = next((x for x in r.servers if x.sid == sid), None)
                    if srv is not None and srv.alive and srv.pending is not None:
                        r.grant(srv, kill=True)
                        killed.append(sid)
                        r.settle()
                    cands = r.visible_servers()
                    if not cands:
                        return None
                    continue
                c = next((x for x in cands if x.sid == sid), None)
                if c is None:
                    break                                   # that server cannot move now: nothing to match, fall through
                call, pth = c.pending["call"], c.pending["path"] or ""
                if lab == "put":
                    nwr[sid] = 0
                if lab == "pwrite":
                    want = "write" if nwr.get(sid, 0) < LABEL_CH else "unlink"      # the step after the last chunk is the failed verify
                    nwr[sid] = nwr.get(sid, 0) + 1
                else:
                    want = LABEL_CALL.get(lab)
                if want is None or call == want:
                    state["li"] += 1
                    return c
                if call == "write" and pth.endswith(hc.STG):
                    if lab == "pwrite":
                        nwr[sid] -= 1
                    return c                                # one more chunk of the same private staging file: same model step
                if lab == "pwrite" or (lab == "dunl" and call == "funlock"):
                    state["li"] += 1                        # fewer real writes than Ch / a refused Delete: the model step has no call
                    continue
                state["li"] += 1
                return c
        if order is not None and labels is None and step < len(order):
            for c in cands:
                if c.sid == order[step]:
                    return c
        if job.get("policy") == "lock_identity":
            # adversarial corpus for the lock's identity (a flock is held on an inode, not on a name):
            #  1 runs until it holds the lock; 2 runs until it has opened the lock file and waits for it; 1 finishes;
            #  2 enters its critical section and reads the live hash; 3 then starts from scratch and tries to enter too
            by = {c.sid: c for c in cands}
            ph = state["phase"]
            if ph == 0:
                if r.lock_holder == 1:
                    state["phase"] = ph = 1
                elif 1 in by:
                    return by[1]
            if ph == 1:
                s2 = r.servers[1]
                if getattr(s2, "lock_wait", False) or not s2.alive:
                    state["phase"] = ph = 2
                elif 2 in by:
                    return by[2]
            if ph == 2:
                if r.lock_holder != 1:
                    state["phase"] = ph = 3
                elif 1 in by:
                    return by[1]
            if ph == 3:
                s2 = r.servers[1]
                if r.lock_holder == 2 and r.trace and r.trace[-1]["sid"] == 2 and r.trace[-1]["call"] == "stat":
                    state["phase"] = ph = 4
                elif 2 in by:
                    return by[2]
            if ph == 4:
                s3 = r.servers[2] if len(r.servers) > 2 else None
                if s3 is None or getattr(s3, "lock_wait", False) or (r.trace and r.trace[-1]["sid"] == 3 and r.trace[-1]["call"] == "stat"):
                    state["phase"] = ph = 5
                elif 3 in by:
                    return by[3]
            if 2 in by:
                return by[2]
            return cands[0]
        if job.get("policy") == "lock_stress":
            # the lock is the suspect: while some server is inside its critical section, push the OTHERS towards and
            # through their flock (under a working lock their probes fail and cost nothing), alternating between them
            holder = r.lock_holder
            if holder is not None:
                others = [c for c in cands if c.sid != holder]
                # a server about to open the lock file is held back half of the time, so that it binds the name later
                late = [c for c in others if not (c.pending["call"] == "open" and c.pending["path"].endswith("commit.lock"))]
                pool = late if late and rng.random() < 0.5 else others
                if pool and rng.random() < 0.85:
                    return rng.choice(pool)
            return rng.choice(cands)
        if job.get("policy") == "random":
            return rng.choice(cands)
        return cands[0]
    kill_plan = {kill[0]: kill[1]} if kill else None
    import signal

    def _alarm(signum, frame):
        raise TimeoutError("execution exceeded 120 s (controller blocked)")
    signal.signal(signal.SIGALRM, _alarm)
    signal.alarm(120)
    try:
        try:
            final = r.run(choose, kill_plan=kill_plan)
        finally:
            signal.alarm(0)
    except Exception as e:          # controller trouble is tool trouble, never a verdict
        for s in r.servers:
            try:
                s.proc.kill()
            except Exception:
                pass
        return {"prog": job["prog"], "error": repr(e)}
    events = []
    for h in r.history:
        if h["t"] == "call":
            o = dict(ops[h["id"]])
            e = {"t": "call", "id": h["id"], "sid": h["sid"],
                 "op": {"kind": o["kind"], "path": o.get("path", ""), "exp": o.get("exp") or "none", "c": o.get("c", "none"),
                        "valid": o.get("valid", True), "conf": o.get("conf", "")}}
            events.append(e)
        else:
            rep = dict(h["reply"])
            if rep.get("r") == "list":
                rep["map"] = {abstract_name(k): v for k, v in rep["map"].items() if abstract_name(k)}
            for k in ("cur", "hash", "body", "len_ok", "map"):
                rep.setdefault(k, "none" if k != "len_ok" else True)
            if rep["map"] == "none":
                rep["map"] = {}
            events.append({"t": "ret", "id": h["id"], "sid": h["sid"], "reply": rep})
    fin = {}
    strangers = []
    for fname, cls in final.items():
        an = abstract_name(fname)
        if an is None:
            continue
        fin[an] = cls
    torn_steps = [{"step": b["step"], "torn": b["torn"]} for b in r.snapshots_bad]
    return {"prog": job["prog"], "init": init, "events": events, "final": fin, "torn_steps": torn_steps,
            "sched": [[t["sid"], t["call"], t["path"]] for t in r.trace], "order": order, "kill": kill,
            "exits": [s.exit for s in r.servers], "relax_list": False, "want_final": job.get("want_final"), "want_bad": job.get("want_bad"),
            "want_replies": job.get("want_replies"), "by_label": labels is not None, "killed": killed}


def run_jobs(copia, shim, root, hashes, jobs, nproc=8):
    with Pool(nproc, initializer=init_worker, initargs=(copia, shim, root, hashes)) as pool:
        return list(pool.imap(execute, jobs, chunksize=2))


def compute_hashes(b3bin, workdir):
    out = {}
    for k, v in CONTENTS.items():
        p = os.path.join(workdir, "c_" + k)
        with open(p, "wb") as f:
            f.write(v)
        out[k] = subprocess.run([b3bin, "b3", p], capture_output=True, text=True).stdout.strip()
    p = os.path.join(workdir, "c_c0")
    open(p, "wb").close()
    out["c0"] = subprocess.run([b3bin, "b3", p], capture_output=True, text=True).stdout.strip()      # expected-hash only, never a content
    return out


def model_reply_key(m, ch=LABEL_CH):
    """a reply of a HubSched behaviour (JSON of Hub.tla's reply record) -> comparable tuple"""
    def cls(d):
        if not d:
            return "empty"
        return d[0][0] if len(d) == ch and all(x[0] == d[0][0] and x[1] == i + 1 for i, x in enumerate(d)) else "torn"
    if m["op"] == "get":
        return ("get", "notfound") if m["r"] == "notfound" else ("get", "content", cls(m["body"]), cls(m["hash"]), m["len"] == len(m["body"]))
    if m["r"] == "error":
        return (m["op"], "error")
    return (m["op"], m["r"], m["cur"])


def real_reply_keys(rec):
    """the real servers' replies of one execution, per server in order, as the same tuples"""
    kinds = {e["id"]: e["op"]["kind"] for e in rec["events"] if e["t"] == "call"}
    out = {}
    for e in rec["events"]:
        if e["t"] != "ret":
            continue
        k, r = kinds.get(e["id"], "?"), e["reply"]
        if k == "get":
            key = ("get", "content", r["body"], r["hash"], bool(r["len_ok"])) if r["r"] == "content" else ("get", "notfound" if r["r"] == "error" else r["r"])
        elif r["r"] == "error":
            key = (k, "error")
        else:
            key = (k, r["r"], r["cur"])
        out.setdefault(e["sid"], []).append(key)
    return out
