"""C11 binding: every enumerated client path is sent as Get, Put (with content) and Delete to a real `copia serve`
under the logging shim (all file calls, roots = "/"); effects outside the served directory are looked for in the log
and in sentinel files next to it; refused paths must leave the session exactly as a fresh one."""
import json
import os
import shutil
import struct
import subprocess
from multiprocessing import Pool

import cborlite as cb
import hub_runs as hr

CFG = {}


def _init(copia, shim, root, hashes):
    import multiprocessing
    ident = multiprocessing.current_process()._identity
    CFG.update(copia=copia, shim=shim, hashes=hashes, dir=os.path.join(root, f"w{ident[0] if ident else 0}"))


def _hash(c):
    return list(bytes.fromhex(CFG["hashes"][c]))


def _session(path_reqs):
    out = hr.hc.MAGIC + cb.frame({"Hello": {"version": 1}})
    for rq in path_reqs:
        if rq[0] == "get":
            out += cb.frame({"Get": {"path": rq[1]}})
        elif rq[0] == "put":
            data = hr.CONTENTS[rq[2]]
            out += cb.frame({"Put": {"path": rq[1], "expected": None, "len": len(data), "hash": _hash(rq[2])}}) + data
        elif rq[0] == "delete":
            out += cb.frame({"Delete": {"path": rq[1], "expected": _hash(rq[2]) if rq[2] else None}})
        elif rq[0] == "list":
            out += cb.frame("List")
    return out + cb.frame("Bye")


def _parse(out):
    res, i = [], 0
    while i + 4 <= len(out):
        n = struct.unpack(">I", out[i:i + 4])[0]
        if i + 4 + n > len(out):
            res.append({"truncated": True})
            break
        try:
            v, _ = cb.dec(out[i + 4:i + 4 + n])
        except Exception:
            v = {"undecodable": True}
        i += 4 + n
        if isinstance(v, dict) and "Content" in v:
            ln = v["Content"]["len"]
            v = {"Content": {"len": ln, "hash": bytes(v["Content"]["hash"]).hex(), "body": out[i:i + ln].hex()[:64]}}
            i += ln
        elif isinstance(v, dict) and "Fingerprints" in v:
            v = {"Fingerprints": {k: bytes(f["blake3"]).hex() for k, f in v["Fingerprints"].items()}}
        elif isinstance(v, dict) and "PutResult" in v:
            v = {"PutResult": {"committed": v["PutResult"]["committed"], "current": bytes(v["PutResult"]["current"]).hex() if v["PutResult"]["current"] else None}}
        res.append(v)
    return res


def _tree(root):
    out = {}
    for dp, dn, fn in os.walk(root):
        for d in dn:
            out[os.path.relpath(os.path.join(dp, d), root) + "/"] = "dir"
        for f in fn:
            p = os.path.join(dp, f)
            try:
                out[os.path.relpath(p, root)] = open(p, "rb").read()
            except OSError:
                out[os.path.relpath(p, root)] = b"?"
    return out


PROBE = [("put", "probe", "c1"), ("get", "probe"), ("list",)]
MUT = {"open", "rename", "unlink", "mkdir", "rmdir", "symlink", "link", "utimens", "ftruncate"}


def run_case(case):
    d = CFG["dir"]
    shutil.rmtree(d, ignore_errors=True)
    parent = os.path.join(d, "parent")
    root = os.path.join(parent, "served")
    os.makedirs(os.path.join(parent, "sibling"))
    os.makedirs(root)
    open(os.path.join(parent, "secret.txt"), "wb").write(b"sentinel\n")
    open(os.path.join(parent, "sibling", "inner.txt"), "wb").write(b"sentinel2\n")
    open(os.path.join(parent, "cvprobe_n"), "wb").write(b"sentinel3\n")     # a file the walk could reach with one ".."
    slash_before = set(os.listdir("/"))
    # symbolic components: BK* ordinary NAMES that contain backslashes and dots (one component each: nothing to refuse, nothing
    # may leave the root), L long, U2.. long runs of 2/3/4-byte characters at every alignment (a reply that cuts an echoed path
    # must cut it at a character boundary), XL / CTL / BSL very long (plain, control characters, backslashes - a reply that echoes
    # the path must still fit a control frame), n.. / ..n names that merely contain dots
    pstr = ("/" if case["abs"] else "") + "/".join({"L": "x" * 300, "n": "cvprobe_n", "..n": "..cvprobe_n", "n..": "cvprobe_n..",
                                                    "XL": "y" * 700_000, "CTL": "\x01\x02" * 150_000, "BSL": "a\\\"" * 300_000,
                                                    "BK1": "..\\cvprobe_n", "BK2": "\\cvprobe_n", "BK3": "a\\..\\..\\cvprobe_n", "BK4": "..\\..\\cvprobe_n",
                                                    "U2": "\u00e9" * 200, "U2a": "a" + "\u00e9" * 200, "U3": "\u30ca" * 120, "U3a": "a" + "\u30ca" * 120,
                                                    "U3b": "ab" + "\u30ca" * 120, "U4": "\U0001F600" * 90, "U4a": "a" + "\U0001F600" * 90,
                                                    # ordinary (if odd) NAMES that become ".." / "." / an absolute path once something
                                                    # "cleans" them: a NUL, blanks, line ends, a per-cent escape, full-width dots
                                                    "Z1": "..\0", "Z2": "\0..", "Z3": ".\0.", "Z0": "\0", "PARENT": parent.lstrip("/"),
                                                    "W0": " ", "W1": " ..", "W2": ".. ", "W3": "..\n", "W4": "\t..", "W5": "..\r", "W6": "\u00a0..",
                                                    "P1": "%2e%2e", "P2": "%2E%2E", "P3": ".%2e", "F1": "\uff0e\uff0e", "F2": "\u2025",
                                                    }.get(c, c) for c in case["comps"])
    env = dict(os.environ, LD_PRELOAD=CFG["shim"], COPIA_SHIM_ROOTS="/", COPIA_SHIM_LOG=os.path.join(d, "log"), RUST_LOG="off")

    def serve(reqs, logname, errmode=0):
        """errmode: where the hub's stderr goes - 0 a pipe that is read, 1 a full device, 2 a pipe nobody holds the other end of
        (a daemon's stderr is often one of the latter two; a refusal that is also *logged* must still be answered)"""
        env["COPIA_SHIM_LOG"] = os.path.join(d, logname)
        err, closeme = subprocess.PIPE, []
        if errmode == 1:
            err = open("/dev/full", "wb")
            closeme.append(err)
        elif errmode == 2:
            rfd, wfd = os.pipe()
            os.close(rfd)
            err = os.fdopen(wfd, "wb")
            closeme.append(err)
        try:
            p = subprocess.run([CFG["copia"], "serve", root], input=_session(reqs), stdout=subprocess.PIPE, stderr=err, env=env, timeout=60)
        finally:
            for f in closeme:
                f.close()
        return p, _parse(p.stdout)

    # calibration: what an empty session touches (runtime start-up, the root itself)
    _, _ = serve([], "cal")
    white = set()
    for ln in open(os.path.join(d, "cal")):
        x = json.loads(ln)
        white.add((x["call"], x["path"]))
    before_parent = {k: v for k, v in _tree(parent).items() if not k.startswith("served")}
    before_root = _tree(root)
    import zlib
    errmode = zlib.crc32(pstr.encode("utf8", "surrogatepass")) % 3
    p, replies = serve([("get", pstr), ("put", pstr, "c2"), ("delete", pstr, None)] + PROBE, "log", errmode)
    after_parent = {k: v for k, v in _tree(parent).items() if not k.startswith("served")}
    outside = []
    for ln in open(os.path.join(d, "log")):
        x = json.loads(ln)
        if x["call"] not in MUT or x["ret"] < 0 or (x["call"], x["path"]) in white:
            continue
        for pp in (x["path"], x["path2"]):
            if not pp:
                continue
            norm = os.path.normpath(pp)
            if not (norm == root or norm.startswith(root + "/")):
                outside.append([x["call"], pp[:200]])
    # a mutant that lets a path through may have created entries outside the scratch area (typically directly under
    # "/"): remove exactly the new top-level entries that the server's own successful calls named
    if outside:
        named = {"/" + os.path.normpath(pp).split("/")[1] for _, pp in outside if os.path.normpath(pp).count("/") >= 1 and not os.path.normpath(pp).startswith(d)}
        for x in set(os.listdir("/")) - slash_before:
            top = "/" + x
            if top in named:
                try:
                    if os.path.isdir(top) and not os.path.islink(top):
                        shutil.rmtree(top)
                    else:
                        os.unlink(top)
                except OSError:
                    pass
    three = replies[1:4]
    # refused = Get, Put and Delete all answered with one and the same error reply (whatever its wording), other than the
    # "not found" a Get of a missing but acceptable path earns
    errs = [v.get("Error") if isinstance(v, dict) else None for v in three]
    refused = len(three) == 3 and errs[0] is not None and errs[0] != "not found" and errs[0] == errs[1] == errs[2]
    rec = {"abs": case["abs"], "comps": case["comps"], "path": pstr[:120], "outside": outside[:5], "sentinels_ok": before_parent == after_parent,
           "refused_by_server": refused, "alive": p.returncode == 0 and len(replies) >= 7, "exit": p.returncode,
           "tree_unchanged": True, "probe_equal": True, "stderr_mode": errmode, "replies": [str(v)[:80] for v in three]}
    if refused:
        # nothing created for the refused path: only the probe's own file may have appeared
        after_root = {k: v for k, v in _tree(root).items() if k not in ("probe",) and not k.startswith(".copia")}
        rec["tree_unchanged"] = after_root == {k: v for k, v in before_root.items() if not k.startswith(".copia")}
        # a fresh session on the same (empty) tree
        shutil.rmtree(root)
        os.makedirs(root)
        _, base = serve(PROBE, "log2")
        rec["probe_equal"] = base[1:] == replies[4:]
    return rec


def run_cases(copia, shim, root, hashes, cases, nproc=12):
    with Pool(nproc, initializer=_init, initargs=(copia, shim, root, hashes)) as pool:
        return list(pool.imap(run_case, cases, chunksize=8))
