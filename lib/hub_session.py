"""C12 binding: sessions enumerated by HubSession.tla are rendered to bytes and fed to a real `copia serve` under an
address-space limit and a timeout; plus cut points and random byte mutations."""
import json
import os
import random
import re
import shutil
import struct
import subprocess
from multiprocessing import Pool

import cborlite as cb
import hub_runs as hr

CFG = {}
MAXF = 1 << 20


def _init(copia, root, hashes, cal):
    import multiprocessing
    ident = multiprocessing.current_process()._identity
    CFG.update(copia=copia, hashes=hashes, cal=cal, dir=os.path.join(root, f"w{ident[0] if ident else 0}"))


def H(c):
    return list(bytes.fromhex(CFG["hashes"][c]))


def piece_bytes(x, rng):
    C = hr.CONTENTS
    if x == "hello":
        return cb.frame({"Hello": {"version": 1}}), False
    if x == "hello_other":
        return cb.frame({"Hello": {"version": rng.choice([0, 2, 255, 0xFFFFFFFF])}}), False
    if x == "put_empty_badhash":
        return cb.frame({"Put": {"path": "f", "expected": H("c1"), "len": 0, "hash": H("c3")}}), False
    if x == "list":
        return cb.frame("List"), False
    if x == "get":
        return cb.frame({"Get": {"path": "f"}}), False
    if x in ("get_padded", "get_smuggle"):
        item = cb.frame({"Get": {"path": "f"}})[4:]
        filler = bytes(40) if x == "get_padded" else cb.frame({"Delete": {"path": "f", "expected": H("c1")}})
        return struct.pack(">I", len(item) + len(filler)) + item + filler, False
    if x == "get_missing_maxframe":
        # the frame's payload is exactly MAXF bytes long, or up to 40 bytes shorter (whatever a reply adds to the path it names
        # must not push the REPLY over the bound)
        want = MAXF - rng.choice([0, 8, 24, 40])
        n = want - 32
        while len(cb.enc({"Get": {"path": "m" * n}})) < want:
            n += 1
        return cb.frame({"Get": {"path": "m" * n}}), False
    if x == "get_badpath":
        # any refused path is the same piece to the model: short, long, long runs of multi-byte characters at both alignments
        return cb.frame({"Get": {"path": rng.choice(["../x", "../" + "\u00e9" * 200, "/a" + "\u00e9" * 120, "a/../../" + "\u30ca" * 70,
                                                     "../ab" + "\u30ca" * 70, "../a" + "\U0001F600" * 40, "/" + "x" * 5000])}}), False
    if x == "put_new":
        return cb.frame({"Put": {"path": "f", "expected": None, "len": len(C["c2"]), "hash": H("c2")}}) + C["c2"], False
    if x == "put_cas_c1":
        return cb.frame({"Put": {"path": "f", "expected": H("c1"), "len": len(C["c2"]), "hash": H("c2")}}) + C["c2"], False
    if x == "put_badhash":
        return cb.frame({"Put": {"path": "f", "expected": H("c1"), "len": len(C["c2"]), "hash": H("c3")}}) + C["c2"], False
    if x == "put_badpath":
        return cb.frame({"Put": {"path": "/abs/x", "expected": None, "len": len(C["c2"]), "hash": H("c2")}}) + C["c2"], False
    if x == "put_dir_badhash":
        content = cb.frame({"Delete": {"path": "f", "expected": H("c1")}}) + cb.frame({"Delete": {"path": "f", "expected": H("c2")}})
        return cb.frame({"Put": {"path": "docs", "expected": None, "len": len(content), "hash": H("c3")}}) + content, False
    if x == "put_under_file":
        # (the content looks like frames: bytes that are not drained would be read as requests)
        content = cb.frame({"Delete": {"path": "f", "expected": H("c1")}}) + cb.frame({"Delete": {"path": "f", "expected": H("c2")}})
        return cb.frame({"Put": {"path": "docs/keep/x", "expected": None, "len": len(content), "hash": H("c3")}}) + content, False
    if x == "delete_c2":
        return cb.frame({"Delete": {"path": "f", "expected": H("c2")}}), False
    if x == "delete_badpath":
        return cb.frame({"Delete": {"path": rng.choice(["a/../../b", "../a" + "\u00e9" * 100, "/" + "\u30ca" * 50]), "expected": None}}), False
    if x == "bye":
        return cb.frame("Bye") + b"junk after bye" + cb.frame({"Put": {"path": "late", "expected": None, "len": 1, "hash": H("c1")}}) + b"x", True
    if x == "oversize_2p20p1":
        return struct.pack(">I", MAXF + 1) + bytes(64), True
    if x == "oversize_u32max":
        return struct.pack(">I", 0xFFFFFFFF) + bytes(64), True
    if x == "undecodable":
        return struct.pack(">I", 12) + b"\xff" * 12, True
    if x == "unknown_variant":
        return cb.frame({"Nope": {"x": 1}}), True
    if x == "zero_len":
        return struct.pack(">I", 0), True
    if x == "deep_nesting":
        body = b"\x81" * 5000 + b"\x00"
        return struct.pack(">I", len(body)) + body, True
    if x == "huge_inner_len":
        body = b"\xa1\x63Get\xa1\x64path\x7b" + struct.pack(">Q", 1 << 40) + b"abc"
        return struct.pack(">I", len(body)) + body, True
    if x == "eof_in_prefix":
        return b"\x00\x00", True
    if x == "eof_in_body":
        return struct.pack(">I", 100) + b"0123456789", True
    if x == "put_len_beyond_eof":
        return cb.frame({"Put": {"path": "f", "expected": H("c1"), "len": len(C["c2"]) + 4096, "hash": H("c2")}}) + C["c2"], True
    if x == "put_content_eof":
        return cb.frame({"Put": {"path": "f", "expected": H("c1"), "len": len(C["c2"]), "hash": H("c2")}}) + C["c2"][:len(C["c2"]) // 2], True
    raise ValueError(x)


PRO = {"ok": b"COPIA1", "short": b"COP", "bad": b"COPIA2", "banner": b"Last login: Fri\nCOPIA1"}


def render(case, rng):
    out = PRO[case["pro"]]
    for x in case["pieces"]:
        b, final = piece_bytes(x, rng)
        out += b
        if final:
            break
    return out


def abstract_reply(v, body):
    cls = lambda h: next((k for k, x in CFG["hashes"].items() if x == bytes(h).hex()), "unknown") if h else "none"
    if isinstance(v, dict):
        if "Hello" in v:
            return "Hello"
        if "Error" in v:
            return "Error:" + v["Error"]
        if "PutResult" in v:
            r = v["PutResult"]
            return ["Put", "committed" if r["committed"] else "conflict", cls(r["current"])]
        if "DeleteResult" in v:
            r = v["DeleteResult"]
            return ["Delete", "deleted" if r["deleted"] else "refused", cls(r["current"])]
        if "Content" in v:
            c = v["Content"]
            ok = c["len"] == len(body) and cls(c["hash"]) == next((k for k, x in hr.CONTENTS.items() if x == body), "torn")
            return ["Content", cls(c["hash"]) if ok else "mismatch"]
        if "Fingerprints" in v:
            m = v["Fingerprints"]
            fcls = cls(m["f"]["blake3"]) if "f" in m else "none"
            conf = next((cls(x["blake3"]) for k, x in m.items() if ".conflict-" in k), "none")
            return ["List", fcls, conf]
    return "Other:" + str(v)[:40]


def parse_replies(out):
    res, i = [], 0
    while i + 4 <= len(out):
        n = struct.unpack(">I", out[i:i + 4])[0]
        if i + 4 + n > len(out):
            res.append("Truncated")
            break
        try:
            v, _ = cb.dec(out[i + 4:i + 4 + n])
        except Exception:
            v = {"Undecodable": 1}
        i += 4 + n
        body = b""
        if isinstance(v, dict) and "Content" in v:
            ln = v["Content"]["len"]
            body = out[i:i + ln]
            i += ln
        res.append(abstract_reply(v, body))
    return res


# staging files a killed server left behind (their pid is nobody's): part of the served tree like any other file
STALE = {"f.4000000000.copia-tmp", os.path.join("docs", "report.4000000001.copia-tmp")}


def tree_state(root):
    f, conf, other = "none", "none", []
    seen_stale = set()
    for dp, dn, fn in os.walk(root):
        if os.path.relpath(dp, root).startswith(".copia"):
            continue
        for name in fn:
            rel = os.path.relpath(os.path.join(dp, name), root)
            data = open(os.path.join(dp, name), "rb").read()
            c = next((k for k, x in hr.CONTENTS.items() if x == data), "torn")
            if rel == "f":
                f = c
            elif rel.startswith("f.conflict-"):
                conf = c
            elif rel == os.path.join("docs", "keep"):
                if data != b"keep\n":
                    other.append(rel)
            elif rel in STALE:
                seen_stale.add(rel)
                if data != b"left by a server that was killed\n":
                    other.append(rel)
            elif not rel.endswith(".copia-tmp"):
                other.append(rel)
    other += sorted(STALE - seen_stale)          # the staging files of OTHER (dead) servers are not this server's to remove
    return f, conf, other


_MMAP = re.compile(r"mmap\(NULL, (\d+),.*MAP_ANONYMOUS")


_HANGS = {"confirmed": 0}


def serve_bytes(data, root, strace=False, redo=None):
    cmd = f"ulimit -v 600000; exec timeout 8 '{CFG['copia']}' serve '{root}'"
    tr = os.path.join(CFG["dir"], "strace.out")
    if strace:
        cmd = f"ulimit -v 600000; exec timeout 30 strace -f -o '{tr}' -e trace=mmap,mremap '{CFG['copia']}' serve '{root}'"
    p = subprocess.run(["sh", "-c", cmd], input=data, stdout=subprocess.PIPE, stderr=subprocess.PIPE, env=dict(os.environ, RUST_LOG="off"), timeout=90)
    if p.returncode == 124 and not strace and redo is not None and _HANGS["confirmed"] < 2:
        # "still running after its input was closed" must not be an artefact of a loaded machine: the session is repeated
        # on a restored tree with five times the limit before the time-out is believed (twice per worker at most)
        redo()
        cmd2 = cmd.replace("timeout 8 ", "timeout 40 ")
        p = subprocess.run(["sh", "-c", cmd2], input=data, stdout=subprocess.PIPE, stderr=subprocess.PIPE, env=dict(os.environ, RUST_LOG="off"), timeout=200)
        if p.returncode == 124:
            _HANGS["confirmed"] += 1          # a real hang: later time-outs in this worker are believed at once
    sizes = []
    if strace and os.path.exists(tr):
        for ln in open(tr, errors="replace"):
            m = _MMAP.search(ln)
            if m:
                sizes.append(int(m.group(1)))
            m2 = re.search(r"mremap\(0x[0-9a-f]+, \d+, (\d+)", ln)
            if m2:
                sizes.append(int(m2.group(1)))
    return p, sizes


def fresh_root():
    root = os.path.join(CFG["dir"], "root")
    shutil.rmtree(CFG["dir"], ignore_errors=True)
    os.makedirs(root)
    open(os.path.join(root, "f"), "wb").write(hr.CONTENTS["c1"])
    os.makedirs(os.path.join(root, "docs"))
    open(os.path.join(root, "docs", "keep"), "wb").write(b"keep\n")
    for rel in STALE:
        open(os.path.join(root, rel), "wb").write(b"left by a server that was killed\n")
    return root


def run_case(job):
    case, mode, seed = job
    rng = random.Random(seed)
    data = render(case, rng) if mode != "slackcut" else b""
    kind = mode
    full_want = [json.loads(json.dumps(x)) for x in case["replies"]] if case else []
    if mode == "slackcut":
        # a frame LONGER than its CBOR item (an effectful request followed by filler), and the input closed inside the filler:
        # the frame never arrived whole, so nothing may have been carried out
        v = seed % 12
        req = [{"Delete": {"path": "f", "expected": H("c1")}}, {"Put": {"path": "f", "expected": H("c1"), "len": 0, "hash": H("c0")}},
               {"Put": {"path": "planted", "expected": None, "len": 0, "hash": H("c0")}}][v % 3]
        item = cb.frame(req)[4:]
        filler = bytes(40) if (v // 3) % 2 == 0 else cb.frame("Bye") + bytes(8)
        with_hello = v < 6
        data = PRO["ok"] + (cb.frame({"Hello": {"version": 1}}) if with_hello else b"") + struct.pack(">I", len(item) + len(filler)) + item + filler
        data = data[:len(data) - rng.randrange(1, len(filler) + 1)]
        case = {"pro": "ok", "pieces": ["hello"] * with_hello + ["padded_" + next(iter(req)).lower() + "_cut_in_filler"], "replies": ["Hello"] * with_hello, "exit": 1, "f": "c1", "conf": "none"}
        full_want = list(case["replies"])
        kind = mode = "cut"
    elif mode == "cut":
        data = data[:rng.randrange(0, len(data) + 1)]
    elif mode == "mutant":
        b = bytearray(data)
        for _ in range(rng.randint(1, 4)):
            r = rng.random()
            if r < 0.4 and b:
                b[rng.randrange(len(b))] = rng.randrange(256)
            elif r < 0.6 and b:
                del b[rng.randrange(len(b))]
            elif r < 0.8:
                b.insert(rng.randrange(len(b) + 1), rng.randrange(256))
            else:
                i = rng.randrange(len(b) + 1)
                b[i:i] = b[max(0, i - 20):i]
        data = bytes(b)
    root = fresh_root()
    want_strace = any(x.startswith("oversize") or x in ("huge_inner_len", "deep_nesting") for x in case["pieces"]) and mode == "session"
    p, sizes = serve_bytes(data, root, strace=want_strace, redo=fresh_root)
    code = p.returncode
    signaled = code < 0 or code > 128 and code != 124
    replies = parse_replies(p.stdout)
    f, conf, other = tree_state(root)
    big = False
    if want_strace:
        calset = set(CFG["cal"])
        big = any(s > MAXF + 65536 and s not in calset for s in sizes)
    valid_seen = case["pro"] == "ok" and mode != "mutant" and any(x in ("put_new", "put_cas_c1", "delete_c2") for x in case["pieces"])
    if mode == "mutant":
        valid_seen = data.startswith(b"COPIA1")      # after a valid prologue a mutated frame may still be a well-formed request
    flat = lambda r: [x if isinstance(x, str) else ":".join(map(str, x)) for x in r]
    replies, full_want = flat(replies), flat(full_want)
    coarse = lambda r: ["Error" if x.startswith("Error:") else x for x in r]
    # what a hub answers to a Hello naming a version other than its own - its own version, or an error - is its business; C12
    # binds what comes AFTER: the stream stays in step either way
    rc_, wc_ = coarse(replies), coarse(full_want)
    for idx, piece in enumerate(case["pieces"]):
        if piece == "hello_other" and idx < len(wc_):
            wc_[idx] = "HelloOrError"
            if idx < len(rc_) and rc_[idx] in ("Hello", "Error"):
                rc_[idx] = "HelloOrError"
    # a server that ENDS the session (error exit, nothing changed) at a Put it cannot stage has still handled its input totally:
    # C12 binds what follows an error REPLY.  Such a run differs from the model (reported as non-conformance), it is no alarm.
    in_step_expected = True
    if kind == "session" and "put_under_file" in case["pieces"] and code == 1 and not signaled:
        cw = coarse(full_want)
        at = case["pieces"].index("put_under_file")       # every request before it is answered by exactly one reply
        if len(replies) == at < len(full_want) and coarse(replies) == cw[:at]:
            in_step_expected = False
    rec = {"kind": kind, "pro": case["pro"], "pieces": case["pieces"], "exit": code if not signaled else -1, "signaled": signaled, "timed_out": code == 124,
           "replies": replies, "f": f, "conf": conf, "tree_unchanged": (f == "c1" and conf == "none" and not other),
           "valid_request_seen": valid_seen, "big_reservation": big,
           "want_replies": full_want, "replies_c": rc_, "want_replies_c": wc_, "want_exit": case["exit"], "want_f": case["f"], "want_conf": case["conf"],
           "in_step_expected": in_step_expected, "nbytes": len(data), "stderr": p.stderr.decode("utf8", "replace")[-200:] if signaled else ""}
    return rec


def calibrate(copia, root, hashes):
    _init(copia, root, hashes, [])
    r = fresh_root()
    p, sizes = serve_bytes(b"COPIA1" + cb.frame({"Hello": {"version": 1}}) + cb.frame("List") + cb.frame("Bye"), r, strace=True)
    return sizes


def run_cases(copia, root, hashes, cal, jobs, nproc=12):
    with Pool(nproc, initializer=_init, initargs=(copia, root, hashes, cal)) as pool:
        return list(pool.imap(run_case, jobs, chunksize=8))
