"""Binding G for bisync: breadth-first exploration of the IMPLEMENTATION's transition graph.

Abstract state = (A, B, trusted, E, last): tuples of content ids over the universe's PathList.
Only Run / DryRun edges need the real binary; user edits and archive faults are applied abstractly.
Each worker owns fixed directories (A, B, HOME) so the pair identity is stable; archives are restored
byte-for-byte as the real code last wrote them (only the 64-hex pair id is substituted per worker)."""
import json
import os
import random
import re
import shutil
import subprocess
import zlib
from multiprocessing import Pool

HOST = "hh"
BASE_NAMES = ["p", "q", "r"]


class Universe:
    def __init__(self, pathlist, contents, editable_idx):
        self.paths = [self._norm(p) for p in pathlist]          # list of tuples: (n, (c,k), (c,k)...)
        self.index = {p: i for i, p in enumerate(self.paths)}
        self.contents = contents                                  # list of {"hex","text"}, ascending by hash; id = index+1
        # a content may be a SYMLINK ({"link": true, "text": target, "deref": bytes behind the target}): to the model it
        # is one more version id; the real tree holds a symbolic link whose target string hashes to "hex"
        self.by_bytes = {c["text"].encode(): i + 1 for i, c in enumerate(contents) if not c.get("link")}
        self.by_link = {c["text"]: i + 1 for i, c in enumerate(contents) if c.get("link")}
        self.by_hex12 = {c["hex"][:12]: i + 1 for i, c in enumerate(contents)}
        self.by_hex = {c["hex"]: i + 1 for i, c in enumerate(contents)}
        self.editable = editable_idx
        self.np = len(self.paths)
        self.names = [self.render(p) for p in self.paths]
        self.name_index = {n: i for i, n in enumerate(self.names)}

    @staticmethod
    def _norm(p):
        return tuple([p[0]] + [tuple(e) for e in p[1:]])

    def render(self, p):
        s = BASE_NAMES[p[0] - 1]
        for (c, k) in p[1:]:
            s += f".conflict-{HOST}-{self.contents[c - 1]['hex'][:12]}"
            if k:
                s += f"-{k}"
        return s

    def bytes_of(self, c):
        return self.contents[c - 1]["text"].encode()

    def is_link(self, c):
        return bool(self.contents[c - 1].get("link"))


_W = {}


def _env(home):
    e = dict(os.environ)
    e.update({"HOME": home, "HOSTNAME": HOST, "RUST_LOG": "off", "LC_ALL": "C", "TZ": "UTC"})
    return e


def _init_worker(copia, root, uni_blob, seed):
    import multiprocessing
    ident = multiprocessing.current_process()._identity
    wid = ident[0] if ident else 0
    d = os.path.join(root, f"w{wid}")
    shutil.rmtree(d, ignore_errors=True)
    for sub in ("A", "B", "home"):
        os.makedirs(os.path.join(d, sub))
    _W.update(copia=copia, dir=d, A=os.path.join(d, "A"), B=os.path.join(d, "B"), home=os.path.join(d, "home"),
              uni=Universe(*uni_blob), rng=random.Random(seed * 1000 + wid))
    for c in _W["uni"].contents:
        if c.get("link"):
            # the link targets "../<name>" resolve to the same file from either root
            with open(os.path.normpath(os.path.join(_W["A"], c["text"])), "wb") as fh:
                fh.write(c["deref"].encode())
    # bootstrap: learn this worker's pair ids for both argument orders.  The probe run has something to do (a file on
    # one side) so that it records its common state whatever a run with an empty plan does.  A Pool initializer that
    # raises makes the pool respawn workers for ever, so a failure is kept and raised by the first task instead.
    _W["pair"] = {}
    _W["init_error"] = None
    try:
        for order in ("AB", "BA"):
            a, b = (_W["A"], _W["B"]) if order == "AB" else (_W["B"], _W["A"])
            with open(os.path.join(_W["A"], "zz-probe"), "wb") as fh:
                fh.write(b"probe\n")
            p = subprocess.run([copia, "bisync", a, b], env=_env(_W["home"]), stdout=subprocess.PIPE, stderr=subprocess.PIPE, timeout=120)
            adir = os.path.join(_W["home"], ".copia", "archive")
            fs = [f for f in os.listdir(adir) if f.endswith(".json")] if os.path.isdir(adir) else []
            known = set(_W["pair"].values())
            new = [f[:-5] for f in fs if f[:-5] not in known]
            if not new:
                raise NoArchive(f"a bisync run of two directories (one file to propagate, order {order}) exited {p.returncode} "
                                f"and recorded no common state under ~/.copia/archive: {p.stderr.decode('utf8', 'replace')[-200:]}")
            _W["pair"][order] = new[0]
    except NoArchive as e:
        _W["init_error"] = str(e)
    except Exception as e:                                             # noqa: BLE001 - must not escape an initializer
        _W["init_error"] = "bootstrap failed: " + repr(e)
    for side in (_W["A"], _W["B"]):
        for f in os.listdir(side):
            os.unlink(os.path.join(side, f))
    shutil.rmtree(os.path.join(_W["home"], ".copia"), ignore_errors=True)


class NoArchive(Exception):
    """a completed run recorded no common state: the harness cannot pre-load archives (and C06 is violated)"""


def _check_init():
    if _W.get("init_error"):
        raise NoArchive(_W["init_error"])


def _materialise(s, blob, order, rng):
    uni = _W["uni"]
    A, B, tr, E, _ = s
    for side, tree in ((_W["A"], A), (_W["B"], B)):
        for f in os.listdir(side):
            os.unlink(os.path.join(side, f))
        for i, c in enumerate(tree):
            if c:
                fp = os.path.join(side, uni.names[i])
                t = rng.choice([1_000_000_000, 1_600_000_000 + rng.randrange(10**8), 1_700_000_000, 2_000_000_000])
                if uni.is_link(c):
                    os.symlink(uni.contents[c - 1]["text"], fp)
                    os.utime(fp, (t, t), follow_symlinks=False)
                    continue
                with open(fp, "wb") as fh:
                    fh.write(uni.bytes_of(c))
                os.utime(fp, (t, t))
    adir = os.path.join(_W["home"], ".copia", "archive")
    shutil.rmtree(adir, ignore_errors=True)
    if tr:
        os.makedirs(adir)
        data = zlib.decompress(blob).replace(b"@PAIR@", _W["pair"][order].encode())
        with open(os.path.join(adir, _W["pair"][order] + ".json"), "wb") as fh:
            fh.write(data)


def _project_tree(root):
    uni = _W["uni"]
    arr = [0] * uni.np
    alien = []
    for dp, dn, fn in os.walk(root):
        for f in fn:
            rel = os.path.relpath(os.path.join(dp, f), root)
            i = uni.name_index.get(rel)
            if os.path.islink(os.path.join(dp, f)):
                data = os.readlink(os.path.join(dp, f)).encode()
                c = uni.by_link.get(data.decode("utf8", "replace"))
            else:
                data = open(os.path.join(dp, f), "rb").read()
                c = uni.by_bytes.get(data)
            if i is None or c is None:
                alien.append([rel, data[:40].decode("latin1")])
            else:
                arr[i] = c
    return arr, alien


def _project_archive(order):
    uni = _W["uni"]
    path = os.path.join(_W["home"], ".copia", "archive", _W["pair"][order] + ".json")
    try:
        raw = open(path, "rb").read()
        d = json.loads(raw)
        if d.get("format_version") != 1 or d.get("root_pair_hash") != _W["pair"][order]:
            return False, [0] * uni.np, None, []
    except Exception:
        return False, [0] * uni.np, None, []
    arr = [0] * uni.np
    alien = []
    try:
        items = [(name, fp, bytes(fp["blake3"]).hex(), fp.get("ftype")) for name, fp in d["entries"].items()]
    except Exception:
        # entries of a shape the real loader does not accept either (a damaged archive that no run has replaced yet)
        return False, [0] * uni.np, None, []
    for name, fp, hexd, _ft in items:
        i = uni.name_index.get(name)
        c = uni.by_hex.get(hexd)
        if i is None or c is None or fp.get("ftype") != ("Symlink" if uni.is_link(c) else "File"):
            alien.append([name, hexd[:12]])
        else:
            arr[i] = c
    blob = zlib.compress(raw.replace(_W["pair"][order].encode(), b"@PAIR@"))
    return True, arr, blob, alien


def _snapshot_bytes():
    """byte + mtime snapshot of both trees and the archive directory (for dry-run)"""
    out = []
    for root in (_W["A"], _W["B"], os.path.join(_W["home"], ".copia")):
        for dp, dn, fn in os.walk(root):
            for f in sorted(fn):
                p = os.path.join(dp, f)
                st = os.lstat(p)
                out.append((p, st.st_size, st.st_mtime_ns, os.readlink(p).encode() if os.path.islink(p) else open(p, "rb").read()))
    return sorted(out)


_PLAN_RE = re.compile(rb"Bidirectional plan: (\d+) action\(s\), (\d+) conflict")


def _run(order, dry=False):
    a, b = (_W["A"], _W["B"]) if order == "AB" else (_W["B"], _W["A"])
    cmd = [_W["copia"], "bisync", a, b] + (["--dry-run"] if dry else [])
    p = subprocess.run(cmd, env=_env(_W["home"]), stdout=subprocess.PIPE, stderr=subprocess.PIPE, timeout=60)
    m = _PLAN_RE.search(p.stderr)
    nplan, nconf = (int(m.group(1)), int(m.group(2))) if m else (-1, -1)
    return p, nplan, nconf


def explore_state(job):
    _check_init()
    """job = (state, archive blob or None, flags) -> edge record(s)"""
    s, blob, flags = job
    uni = _W["uni"]
    rng = _W["rng"]
    out = []
    _materialise(s, blob, "AB", rng)
    if flags.get("dry"):
        before = _snapshot_bytes()
        p, nplan, nconf = _run("AB", dry=True)
        after = _snapshot_bytes()
        plan = []
        for line in p.stdout.decode("utf8", "replace").splitlines():
            if line.startswith("(dry run)") or not line.strip():
                continue
            parts = line.split(None, 1)
            if len(parts) == 2:
                act = parts[0].replace("Conflict(BothChanged)", "ConflictBothChanged").replace("Conflict(DeleteVsModify)", "ConflictDeleteVsModify")
                plan.append([uni.name_index.get(parts[1].strip(), -1) + 1, act])
        out.append({"ev": "dry", "s": _sj(s), "exit": p.returncode, "unchanged": before == after, "plan": plan, "nplan": nplan})
    p, nplan, nconf = _run("AB")
    tA, al1 = _project_tree(_W["A"])
    tB, al2 = _project_tree(_W["B"])
    tr, tE, nblob, al3 = _project_archive("AB")
    last = [x if x == y else 0 for x, y in zip(tA, tB)]
    rec = {"ev": "run", "s": _sj(s), "t": {"A": tA, "B": tB, "tr": tr, "E": tE, "last": last},
           "exit": p.returncode, "nplan": nplan, "nconf": nconf, "alien": al1 + al2 + al3,
           "swap_ok": True, "mtime_ok": True, "dry_unchanged": True,
           "stderr": p.stderr.decode("utf8", "replace")[-300:] if p.returncode not in (0, 1) else ""}
    if flags.get("alt"):
        # same abstract state, mtimes re-drawn: must give the same projection
        _materialise(s, blob, "AB", rng)
        _run("AB")
        a2, _ = _project_tree(_W["A"])
        b2, _ = _project_tree(_W["B"])
        _, e2, _, _ = _project_archive("AB")
        rec["mtime_ok"] = (a2 == tA and b2 == tB and e2 == tE)
        # roots named in the other order (archive of the (B,A) pair holds the same entries)
        _materialise(s, blob, "BA", rng)
        _run("BA")
        a3, _ = _project_tree(_W["A"])
        b3, _ = _project_tree(_W["B"])
        tr3, e3, _, _ = _project_archive("BA")
        rec["swap_ok"] = (a3 == tA and b3 == tB and e3 == tE and tr3 == tr)
        shutil.rmtree(os.path.join(_W["home"], ".copia"), ignore_errors=True)
    out.append(rec)
    return s, out, nblob


def _sj(s):
    A, B, tr, E, last = s
    return {"A": list(A), "B": list(B), "tr": tr, "E": list(E), "last": list(last)}


def explore(copia, uni_blob, seed, root, max_states=None, alt_every=10, dry_every=1, nproc=16, progress=None):
    """BFS from the empty state.  Returns (edges, stats).  edges: list of JSON-able records."""
    uni = Universe(*uni_blob)
    empty = tuple([0] * uni.np)
    init = (empty, empty, False, empty, empty)
    seen = {init}
    blobs = {}            # E tuple -> archive blob (bytes as the real code wrote them, pair id replaced by @PAIR@)
    frontier = [init]
    edges = []
    stats = {"states": 0, "run_edges": 0, "abstract_edges": 0, "alien": 0, "levels": 0, "truncated": False}
    C = len(uni.contents)
    rng = random.Random(seed)
    with Pool(nproc, initializer=_init_worker, initargs=(copia, root, uni_blob, seed)) as pool:
        while frontier:
            stats["levels"] += 1
            jobs = []
            for s in frontier:
                n = stats["states"] + len(jobs)
                flags = {"alt": (rng.randrange(alt_every) == 0), "dry": (rng.randrange(dry_every) == 0)}
                jobs.append((s, blobs.get(s[3]) if s[2] else None, flags))
            stats["states"] += len(jobs)
            nxt = []
            for s, recs, nblob in pool.imap_unordered(explore_state, jobs, chunksize=8):
                edges.extend(recs)
                run = recs[-1]
                stats["run_edges"] += 1
                A, B, tr, E, last = s
                succ = []
                if run["alien"]:
                    stats["alien"] += 1
                else:
                    t = run["t"]
                    ts = (tuple(t["A"]), tuple(t["B"]), t["tr"], tuple(t["E"]), tuple(t["last"]))
                    if t["tr"] and ts[3] not in blobs and nblob is not None:
                        blobs[ts[3]] = nblob
                    succ.append(ts)
                for i in uni.editable:
                    for c in range(1, C + 1):
                        if A[i] != c:
                            succ.append((A[:i] + (c,) + A[i + 1:], B, tr, E, last))
                        if B[i] != c:
                            succ.append((A, B[:i] + (c,) + B[i + 1:], tr, E, last))
                    if A[i]:
                        succ.append((A[:i] + (0,) + A[i + 1:], B, tr, E, last))
                    if B[i]:
                        succ.append((A, B[:i] + (0,) + B[i + 1:], tr, E, last))
                if tr:
                    succ.append((A, B, False, empty, last))
                stats["abstract_edges"] += len(succ) - (0 if run["alien"] else 1)
                for x in succ:
                    if x not in seen:
                        seen.add(x)
                        nxt.append(x)
            if progress:
                progress(stats, len(nxt))
            if max_states and stats["states"] + len(nxt) > max_states:
                rng.shuffle(nxt)
                nxt = nxt[:max(0, max_states - stats["states"])]
                stats["truncated"] = True
            frontier = nxt
    stats["distinct_states"] = len(seen)
    trusted = [x for x in seen if x[2] and x[3] in blobs]
    return edges, stats, trusted, blobs


FAULT_KINDS = ["stale_bak", "absent", "zero", "trunc", "garbage", "wrong_shape", "version0", "version2", "foreign_pair",
               "other_order_copied", "only_bak", "only_tmp", "no_version", "version_renamed", "version_string", "no_pair", "unknown_ftype", "entry_not_object", "trailing", "stale_other_order"]


def fault_state(job):
    _check_init()
    """job = (trusted state, blob, kind, param) -> run edge whose source is the same trees with an untrusted archive"""
    s, blob, kind, param = job
    uni = _W["uni"]
    rng = _W["rng"]
    _materialise(s, blob, "AB", rng)
    adir = os.path.join(_W["home"], ".copia", "archive")
    path = os.path.join(adir, _W["pair"]["AB"] + ".json")
    raw = open(path, "rb").read()
    if kind == "absent":
        os.unlink(path)
    elif kind == "zero":
        open(path, "wb").close()
    elif kind == "trunc":
        cut = min(len(raw) - 1, param)
        open(path, "wb").write(raw[:cut])
    elif kind == "garbage":
        open(path, "wb").write(bytes(rng.randrange(256) for _ in range(param or 200)))
    elif kind == "wrong_shape":
        open(path, "wb").write(json.dumps([{"format_version": 1}, "x", 3] if param else {"format_version": 1, "entries": []}).encode())
    elif kind in ("version0", "version2"):
        d = json.loads(raw)
        d["format_version"] = 0 if kind == "version0" else 2
        open(path, "wb").write(json.dumps(d, indent=2).encode())
    elif kind in ("no_version", "version_renamed", "version_string", "no_pair"):
        # "of another format version" / "belongs to a different pair" also covers an archive that does not SAY which version
        # or pair it is: well-formed JSON, entries intact, the identifying member missing, renamed or of another type
        d = json.loads(raw)
        if kind == "no_pair":
            del d["root_pair_hash"]
        else:
            v = d.pop("format_version")
            if kind == "version_renamed":
                d["schema"] = 2
            elif kind == "version_string":
                d["format_version"] = "1.0" if v == 1 else str(v)
        open(path, "wb").write(json.dumps(d, indent=2).encode())
    elif kind in ("unknown_ftype", "entry_not_object"):
        # wrong shape INSIDE the entries: one entry of an entry type this version does not know / that is not an object at
        # all.  An archive is trusted as a whole or not at all.
        d = json.loads(raw)
        names = sorted(d["entries"])
        if names:
            victim = names[(param or 0) % len(names)]
            if kind == "unknown_ftype":
                d["entries"][victim]["ftype"] = "Directory"
            else:
                d["entries"][victim] = "gone"
        else:
            d["entries"] = {"ghost": {"blake3": [0] * 32, "ftype": "Directory"}} if kind == "unknown_ftype" else {"ghost": 7}
        open(path, "wb").write(json.dumps(d, indent=2).encode())
    elif kind == "trailing":
        # a complete, valid document for this pair FOLLOWED by something: the file as a whole is not an archive
        tail = [b"\nrest of an older, longer archive\"\n  }\n}\n", b"\x00", b"}", raw, b"\n[]", bytes(rng.randrange(1, 256) for _ in range(40)) + b"x"][param % 6]
        open(path, "wb").write(raw + tail)
    elif kind == "foreign_pair":
        d = json.loads(raw)
        d["root_pair_hash"] = "%064x" % rng.getrandbits(256)
        open(path, "wb").write(json.dumps(d, indent=2).encode())
    elif kind == "other_order_copied":
        open(path, "wb").write(raw.replace(_W["pair"]["AB"].encode(), _W["pair"]["BA"].encode()))
    elif kind == "only_bak":
        os.rename(path, path + ".bak")
    elif kind == "only_tmp":
        os.rename(path, path + ".tmp")
    elif kind == "stale_other_order":
        # this pair's archive is gone; an older archive of the SAME two roots named in the other order (another pair, as far as
        # the recorded state goes) is still there, valid for that order
        os.unlink(path)
        open(os.path.join(adir, _W["pair"]["BA"] + ".json"), "wb").write(zlib.decompress(param).replace(b"@PAIR@", _W["pair"]["BA"].encode()))
        param = 0
    elif kind == "stale_bak":
        # the live archive is gone; what `save` retained from an earlier generation (another archive the real code wrote) is still there
        os.unlink(path)
        open(path + ".bak", "wb").write(zlib.decompress(param).replace(b"@PAIR@", _W["pair"]["AB"].encode()))
        param = 0
    # a dry run on the damaged recorded state must leave it exactly as damaged as it was (C15)
    before = _snapshot_bytes()
    _run("AB", dry=True)
    dry_unchanged = before == _snapshot_bytes()
    p, nplan, nconf = _run("AB")
    tA, al1 = _project_tree(_W["A"])
    tB, al2 = _project_tree(_W["B"])
    tr, tE, nblob, al3 = _project_archive("AB")
    A, B, _, E, last = s
    empty = [0] * uni.np
    banner = b"SAFE no-base mode" in p.stderr
    rec = {"ev": "run", "fault": kind, "param": param, "banner": banner,
           "s": {"A": list(A), "B": list(B), "tr": False, "E": empty, "last": list(last)},
           "t": {"A": tA, "B": tB, "tr": tr, "E": tE, "last": [x if x == y else 0 for x, y in zip(tA, tB)]},
           "exit": p.returncode, "nplan": nplan, "nconf": nconf, "alien": al1 + al2 + al3, "swap_ok": True, "mtime_ok": True,
           "dry_unchanged": dry_unchanged, "stderr": ""}
    return rec


def inject_faults(copia, uni_blob, seed, root, jobs, nproc=16):
    with Pool(nproc, initializer=_init_worker, initargs=(copia, root, uni_blob, seed + 77)) as pool:
        return list(pool.imap_unordered(fault_state, jobs, chunksize=4))
