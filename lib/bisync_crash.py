"""Binding S, kill mode, for C08: the real `copia bisync` is killed immediately before its k-th file-system-mutating
libc call (LD_PRELOAD shim, COPIA_SHIM_KILL=k), for k = 1..N of every scenario; byte-exact snapshots are taken after
the kill and after the recovery run(s).  Output: one JSON record per (scenario, k) for BisyncCrashTrace.tla."""
import json
import os
import shutil
import subprocess
from multiprocessing import Pool

import bisync_graph as bg

SHIM = None
COPIA = None
STG = ".copia-tmp"


def _env(home, root, log=None, kill=None):
    e = bg._env(home)
    e.update({"LD_PRELOAD": SHIM, "COPIA_SHIM_ROOTS": root})
    if log:
        e["COPIA_SHIM_LOG"] = log
    if kill:
        e["COPIA_SHIM_KILL"] = str(kill)
    return e


def _write_tree(root, tree, uni):
    shutil.rmtree(root, ignore_errors=True)
    os.makedirs(root)
    for i, c in enumerate(tree):
        if c:
            with open(os.path.join(root, uni.names[i]), "wb") as f:
                f.write(uni.bytes_of(c))


def _snap_dir(d):
    out = {}
    for dp, dn, fn in os.walk(d):
        for f in fn:
            p = os.path.join(dp, f)
            out[os.path.relpath(p, d)] = open(p, "rb").read()
    return out


def _restore_dir(d, snap):
    shutil.rmtree(d, ignore_errors=True)
    os.makedirs(d)
    for rel, data in snap.items():
        p = os.path.join(d, rel)
        os.makedirs(os.path.dirname(p), exist_ok=True)
        with open(p, "wb") as f:
            f.write(data)


def _project(snap, uni):
    """tree snapshot -> (tree array, staging array, aliens); content id, -1 for anything that is not a complete known version"""
    tree = [0] * uni.np
    stg = [0] * uni.np
    alien = []
    for rel, data in snap.items():
        c = uni.by_bytes.get(data, -1)
        if rel.endswith(STG) and rel[:-len(STG)] in uni.name_index:
            stg[uni.name_index[rel[:-len(STG)]]] = c
        elif rel in uni.name_index:
            tree[uni.name_index[rel]] = c
        else:
            alien.append(rel)
    return tree, stg, alien


def _arch_class(home, pair, old_bytes, new_entries, uni):
    path = os.path.join(home, ".copia", "archive", pair + ".json")
    if not os.path.exists(path):
        return "absent"
    raw = open(path, "rb").read()
    if old_bytes is not None and raw == old_bytes:
        return "old"
    try:
        d = json.loads(raw)
        ent = {k: bytes(v["blake3"]).hex() for k, v in d["entries"].items()}
        if d.get("format_version") == 1 and d.get("root_pair_hash") == pair and ent == new_entries:
            return "new"
    except Exception:
        pass
    return "torn"


def _entries(home, pair):
    path = os.path.join(home, ".copia", "archive", pair + ".json")
    try:
        d = json.loads(open(path, "rb").read())
        return {k: bytes(v["blake3"]).hex() for k, v in d["entries"].items()}
    except Exception:
        return None


def _map_calls(log_lines, A, B, home, uni):
    """shim log (mutating calls of the copia process) -> step vocabulary of BisyncCrash"""
    out = []

    def loc(path):
        for side, root in (("A", A), ("B", B)):
            if path.startswith(root + "/"):
                rel = path[len(root) + 1:]
                if rel.endswith(STG) and rel[:-len(STG)] in uni.name_index:
                    return side, uni.name_index[rel[:-len(STG)]] + 1, True
                if rel in uni.name_index:
                    return side, uni.name_index[rel] + 1, False
                return side, 0, False
        return None, 0, False

    for d in log_lines:
        if not d["mut"]:
            continue
        call, path, ok = d["call"], d["path"], d["ret"] >= 0
        if call == "mkdir":
            continue       # create_dir_all of an existing parent: a kill point, no effect on the modelled state
        if path.startswith(home):
            if call == "open" and path.endswith(".json.tmp"):
                out.append({"op": "ArchCreateTmp"})
            elif call == "write" and path.endswith(".json.tmp"):
                out.append({"op": "ArchWrite"})
            elif call == "fsync" and path.endswith(".json.tmp"):
                out.append({"op": "ArchFsync"})
            elif call == "rename" and d["path2"].endswith(".json.bak"):
                out.append({"op": "ArchToBak"})
            elif call == "rename" and path.endswith(".json.tmp"):
                out.append({"op": "ArchCommit"})
            elif call == "fsync":
                pass   # directory fsync
            else:
                out.append({"op": "Noop", "call": call})
            continue
        side, idx, is_tmp = loc(path)
        if call == "open" and is_tmp:
            out.append({"op": "CreateTmp", "side": side, "path": idx})
        elif call == "copy_file_range" and is_tmp:
            fside, fidx, _ = loc(d["path2"])
            if d["ret"] > 0:
                out.append({"op": "CopyData", "side": side, "path": idx, "fside": fside, "fpath": fidx})
            else:
                out.append({"op": "CopyEof", "side": side, "path": idx})
        elif call in ("write", "sendfile") and is_tmp:
            out.append({"op": "CopyData", "side": side, "path": idx, "fside": side, "fpath": idx, "generic": True})
        elif call == "fsync" and is_tmp:
            out.append({"op": "FsyncTmp", "side": side, "path": idx})
        elif call == "rename" and is_tmp:
            out.append({"op": "Rename", "side": side, "path": idx})
        elif call == "unlink" and idx:
            out.append({"op": "Unlink", "side": side, "path": idx})
        elif call == "mkdir":
            pass       # create_dir_all of an existing parent: a kill point, no effect
        else:
            out.append({"op": "Noop", "call": call, "path": path})
    return out


def run_scenario(job):
    sc, wid_root, uni_blob = job
    uni = bg.Universe(*uni_blob)
    d = os.path.join(wid_root, f"s{sc['id']}")
    shutil.rmtree(d, ignore_errors=True)
    A, B, home = os.path.join(d, "A"), os.path.join(d, "B"), os.path.join(d, "home")
    for x in (A, B, home):
        os.makedirs(x)
    log = os.path.join(d, "log")
    plain = bg._env(home)

    def bisync(env):
        return subprocess.run([COPIA, "bisync", A, B], env=env, stdout=subprocess.PIPE, stderr=subprocess.PIPE, timeout=60)

    # establish the archive with entries E by a real run on identical trees, then apply the user's edits
    if sc["tr"]:
        _write_tree(A, sc["E"], uni)
        _write_tree(B, sc["E"], uni)
        bisync(plain)
        if sc.get("second_gen"):
            bisync(plain)      # a second save so that a .bak exists
    _write_tree(A, sc["A"], uni)
    _write_tree(B, sc["B"], uni)
    adir = os.path.join(home, ".copia", "archive")
    pair = None
    if sc["tr"]:
        pair = [f for f in os.listdir(adir) if f.endswith(".json")][0][:-5]
    if sc.get("stale_arch_tmp") and pair:
        # what a run killed inside an earlier save left at the archive's staging name: longer than anything this run will write
        with open(os.path.join(adir, pair + ".json.tmp"), "wb") as f:
            f.write(open(os.path.join(adir, pair + ".json"), "rb").read() + b"\n" + b'    "tail of an older, longer archive": {}\n  }\n}\n' * 40)
    pre = {"A": _snap_dir(A), "B": _snap_dir(B), "home": _snap_dir(home)}
    old_bytes = pre["home"].get(os.path.join(".copia", "archive", (pair or "x") + ".json"))
    # uninterrupted traced run
    open(log, "w").close()
    p = bisync(_env(home, d, log=log))
    lines = [json.loads(x) for x in open(log)]
    if pair is None:
        pair = [f for f in os.listdir(adir) if f.endswith(".json")][0][:-5]
    fin = {"A": _snap_dir(A), "B": _snap_dir(B)}
    fin_entries = _entries(home, pair)
    n_mut = sum(1 for x in lines if x["mut"])
    finA, _, al1 = _project(fin["A"], uni)
    finB, _, al2 = _project(fin["B"], uni)
    pre_rec = {"A": sc["A"], "B": sc["B"], "tr": sc["tr"], "E": sc["E"], "last": sc["last"]}
    recs = []

    def record(k, calls, crashA, crashB, arch, rec, exits, extra=None):
        cA, sA, a1 = _project(crashA, uni)
        cB, sB, a2 = _project(crashB, uni)
        r = {"scenario": sc["name"], "sid": sc["id"], "k": k, "n_mut": n_mut, "pre": pre_rec, "calls": calls,
             "crash": {"A": cA, "B": cB, "SA": sA, "SB": sB, "arch": arch, "alien": a1 + a2},
             "fin": {"A": finA, "B": finB}, "rec": rec, "exits": exits}
        if extra:
            r.update(extra)
        recs.append(r)

    record(0, _map_calls(lines, A, B, home, uni), fin["A"], fin["B"],
           _arch_class(home, pair, old_bytes, fin_entries, uni),
           {"A": finA, "B": finB, "ok": p.returncode in (0, 1), "runs": 0, "arch": _arch_class(home, pair, None, fin_entries, uni)}, [p.returncode],
           {"raw_calls": [[x["call"], os.path.relpath(x["path"], d), x["ret"]] for x in lines if x["mut"]]})
    for k in range(1, n_mut + 1):
        for name in ("A", "B", "home"):
            _restore_dir(os.path.join(d, name), pre[name])
        open(log, "w").close()
        p = bisync(_env(home, d, log=log, kill=k))
        klines = [json.loads(x) for x in open(log)]
        crashA, crashB = _snap_dir(A), _snap_dir(B)
        arch = _arch_class(home, pair, old_bytes, fin_entries, uni)
        exits = [p.returncode]
        ok = False
        runs = 0
        for attempt in range(3):
            leftovers = any(f.endswith(STG) for root in (A, B) for _, _, fs in os.walk(root) for f in fs)
            q = bisync(plain)
            runs += 1
            exits.append(q.returncode)
            completed = q.returncode == 0 or (q.returncode == 1 and b"had conflicts" in q.stderr)
            if completed:
                ok = True
                break
            if not leftovers:
                break
        rA, _, _ = _project(_snap_dir(A), uni)
        rB, _, _ = _project(_snap_dir(B), uni)
        # the recorded state after the completed re-run (C06 / C08: it is the tree the runs ended in, readable)
        record(k, _map_calls(klines, A, B, home, uni), crashA, crashB, arch,
               {"A": rA, "B": rB, "ok": ok, "runs": runs, "arch": _arch_class(home, pair, None, fin_entries, uni)}, exits)
    shutil.rmtree(d, ignore_errors=True)
    return recs


def run_all(copia, shim, scenarios, uni_blob, root, nproc=12):
    global SHIM, COPIA
    SHIM, COPIA = shim, copia
    jobs = [(sc, root, uni_blob) for sc in scenarios]
    with Pool(nproc, initializer=_init, initargs=(copia, shim)) as pool:
        out = []
        for recs in pool.imap_unordered(run_scenario, jobs):
            out.extend(recs)
    return out


def _init(copia, shim):
    global SHIM, COPIA
    SHIM, COPIA = shim, copia
