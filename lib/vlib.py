"""Shared machinery for the copia verification checks.

build_repo / build_harness : rebuild from /repo's working tree (flock-serialised)
tlc(...)                   : run TLC under a timeout, parse statistics / PrintT payloads / violations
Evidence                   : writes /verif/evidence/<id>.json per EVIDENCE.schema.json
Verdict rule (DESIGN 2.3)  : exit 1 only with a VIOLATION line + replay file; tool trouble is exit 2.
"""
import fcntl
import json
import os
import re
import shutil
import subprocess
import sys
import time

VERIF = os.path.dirname(os.path.dirname(os.path.abspath(__file__)))
REPO = os.environ.get("VERIF_REPO", "/repo")
CACHE = os.path.join(VERIF, ".cache")
SPEC = os.path.join(VERIF, "spec")
EVID = os.path.join(VERIF, "evidence")
REPLAY = os.path.join(VERIF, "replay")
REPO_TARGET = os.path.join(CACHE, "repo-target")
HARNESS_TARGET = os.path.join(CACHE, "harness-target")
COPIA_BIN = os.path.join(REPO_TARGET, "debug", "copia")
TLA_JAR = "/opt/veriftools/tla/tla2tools.jar"
COMMUNITY = None


class ToolError(Exception):
    pass


def log(*a):
    print(*a, file=sys.stderr, flush=True)


def seed():
    try:
        return int(os.environ.get("VERIF_SEED", "1"))
    except ValueError:
        return 1


def ensure_dirs():
    for d in (CACHE, EVID, REPLAY):
        os.makedirs(d, exist_ok=True)


class _Lock:
    def __init__(self, name):
        ensure_dirs()
        self.path = os.path.join(CACHE, name + ".lock")

    def __enter__(self):
        self.f = open(self.path, "w")
        fcntl.flock(self.f, fcntl.LOCK_EX)
        return self

    def __exit__(self, *a):
        fcntl.flock(self.f, fcntl.LOCK_UN)
        self.f.close()


def _cargo_env():
    env = dict(os.environ)
    env["CARGO_NET_OFFLINE"] = "true"
    env.pop("RUSTFLAGS", None)
    return env


def build_repo():
    """cargo build --features cli of /repo's working tree into .cache/repo-target (dev profile)."""
    with _Lock("build-repo"):
        env = _cargo_env()
        env["CARGO_TARGET_DIR"] = REPO_TARGET
        t = time.time()
        p = subprocess.run(
            ["cargo", "build", "--offline", "--features", "cli", "--bin", "copia"],
            cwd=REPO, env=env, stdout=subprocess.PIPE, stderr=subprocess.STDOUT, text=True)
        if p.returncode != 0:
            log(p.stdout[-4000:])
            raise ToolError("cargo build of /repo failed")
        log(f"[build] copia binary ok ({time.time()-t:.1f}s)")
    return COPIA_BIN


def build_harness(bins):
    """Build the named harness binaries (they compile /repo's library and #[path]-included sources)."""
    with _Lock("build-harness"):
        env = _cargo_env()
        t = time.time()
        cmd = ["cargo", "build", "--offline"]
        for b in bins:
            cmd += ["--bin", b]
        p = subprocess.run(cmd, cwd=os.path.join(VERIF, "harness"), env=env,
                           stdout=subprocess.PIPE, stderr=subprocess.STDOUT, text=True)
        if p.returncode != 0:
            log(p.stdout[-6000:])
            raise ToolError("cargo build of harness failed")
        log(f"[build] harness {bins} ok ({time.time()-t:.1f}s)")
    return {b: os.path.join(HARNESS_TARGET, "debug", b) for b in bins}


def build_shim():
    """gcc build of the LD_PRELOAD shim into .cache/copia_shim.so"""
    with _Lock("build-shim"):
        out = os.path.join(CACHE, "copia_shim.so")
        src = os.path.join(VERIF, "shim", "copia_shim.c")
        if not os.path.exists(out) or os.path.getmtime(out) < os.path.getmtime(src):
            p = subprocess.run(["gcc", "-O2", "-fPIC", "-shared", "-o", out, src, "-ldl", "-lpthread"],
                               stdout=subprocess.PIPE, stderr=subprocess.STDOUT, text=True)
            if p.returncode != 0:
                log(p.stdout)
                raise ToolError("shim build failed")
    return out


_PAYLOAD = re.compile(r'^<<"([A-Z]+)", "(.*)">>$')


def _tla_unescape(s):
    if "\\" not in s:
        return s
    out, i, n = [], 0, len(s)
    while i < n:
        c = s[i]
        if c == "\\" and i + 1 < n:
            d = s[i + 1]
            out.append({"n": "\n", "t": "\t", "r": "\r", "f": "\f"}.get(d, d))
            i += 2
        else:
            out.append(c)
            i += 1
    return "".join(out)


class TlcResult:
    def __init__(self):
        self.generated = 0
        self.distinct = 0
        self.depth = 0
        self.payloads = {}     # tag -> list of decoded JSON objects printed by the spec
        self.violation = None  # name of violated invariant / property
        self.error = None      # other error text
        self.trace = []        # counterexample states (raw text blocks)
        self.wall = 0.0
        self.raw_tail = ""
        self.coverage = {}     # action name -> (count, distinct)


def tlc(module, cfg, workers=4, timeout=600, env_extra=None, simulate=None, depth_first=False,
        extra_args=(), xmx="4g", want_payload=True, coverage=False, cwd=SPEC, keep_output=None):
    """Run TLC on spec/<module>.tla with spec/<cfg>. Returns TlcResult.  Tool failure -> ToolError."""
    ensure_dirs()
    import uuid
    meta = os.path.join(CACHE, "tlc", f"{module}-{os.getpid()}-{uuid.uuid4().hex[:12]}")      # unique per call: checks start many TLCs at once
    os.makedirs(meta, exist_ok=True)
    jopts = "-Xss1g"
    if depth_first:
        jopts += " -Dtlc2.tool.queue.IStateQueue=StateDeque"
    env = dict(os.environ)
    env["JAVA_TOOL_OPTIONS"] = jopts
    if env_extra:
        env.update({k: str(v) for k, v in env_extra.items()})
    cmd = ["java", f"-Xmx{xmx}", "-XX:+UseParallelGC", "-cp", _classpath(), "tlc2.TLC",
           "-workers", str(workers), "-metadir", meta, "-noGenerateSpecTE", "-cleanup",
           "-config", cfg]
    if coverage:
        cmd += ["-coverage", "1"]
    if simulate:
        cmd += ["-simulate", simulate]
    cmd += list(extra_args)
    cmd += [module + ".tla"]
    t = time.time()
    try:
        p = subprocess.run(cmd, cwd=cwd, env=env, stdout=subprocess.PIPE, stderr=subprocess.STDOUT,
                           text=True, timeout=timeout, errors="replace")
    except subprocess.TimeoutExpired:
        shutil.rmtree(meta, ignore_errors=True)
        raise ToolError(f"TLC timed out after {timeout}s on {module}/{cfg}")
    finally:
        pass
    shutil.rmtree(meta, ignore_errors=True)
    r = TlcResult()
    r.wall = time.time() - t
    out = p.stdout
    if keep_output:
        with open(keep_output, "w") as f:
            f.write(out)
    r.raw_tail = out[-3000:]
    in_trace = False
    for line in out.splitlines():
        m = _PAYLOAD.match(line)
        if m and want_payload:
            tag, body = m.group(1), m.group(2)
            obj = json.loads(_tla_unescape(body))
            r.payloads.setdefault(tag, []).append(obj)
            continue
        m = re.match(r"^(\d+) states generated, (\d+) distinct states found", line)
        if m:
            r.generated, r.distinct = int(m.group(1)), int(m.group(2))
        m = re.match(r"^The depth of the complete state graph search is (\d+)", line)
        if m:
            r.depth = int(m.group(1))
        m = re.match(r"^Error: Invariant (\S+) is violated", line)
        if m:
            r.violation = m.group(1)
            in_trace = True
        m = re.match(r"^Error: Action property (\S+) is violated", line)
        if m:
            r.violation = m.group(1)
            in_trace = True
        if line.startswith("Error: Temporal properties were violated"):
            r.violation = "temporal"
            in_trace = True
        if line.startswith("Error:") and r.violation is None and r.error is None \
                and "Invariant" not in line and "property" not in line:
            r.error = line
        if in_trace:
            r.trace.append(line)
        m = re.match(r"^<(\w+) line .* of module (\w+)>: (\d+):(\d+)", line)
        if m:
            r.coverage[m.group(1)] = (int(m.group(4)), int(m.group(3)))
    if p.returncode not in (0, 12, 13) and r.violation is None:
        # 12 = safety violation, 13 = liveness violation; anything else is tool trouble
        log(out[-3000:])
        if env_extra and "TRACE" in env_extra and os.path.exists(env_extra["TRACE"]):
            shutil.copy(env_extra["TRACE"], os.path.join(CACHE, "last_failed_trace.ndjson"))
        detail = " | ".join(l for l in out.splitlines() if "ttempted" in l or "rror" in l)[:600]
        raise ToolError(f"TLC failed on {module}/{cfg} (exit {p.returncode}): {detail}")
    if r.error and r.violation is None and p.returncode != 0:
        log(out[-3000:])
        raise ToolError(f"TLC error on {module}/{cfg}: {r.error}")
    return r


def _classpath():
    global COMMUNITY
    if COMMUNITY is None:
        COMMUNITY = TLA_JAR + ":/opt/veriftools/tla/CommunityModules-deps.jar"
    return COMMUNITY


def apalache(module, init, inv, length, timeout=1200):
    """apalache-mc check on spec/apalache/<module>.tla; returns True iff EXITCODE: OK"""
    d = os.path.join(SPEC, "apalache")
    out = os.path.join(CACHE, "apalache-out")
    try:
        p = subprocess.run(["apalache-mc", "check", f"--init={init}", f"--inv={inv}", f"--length={length}", f"--out-dir={out}", module + ".tla"],
                           cwd=d, stdout=subprocess.PIPE, stderr=subprocess.STDOUT, text=True, timeout=timeout)
    except subprocess.TimeoutExpired:
        raise ToolError(f"apalache timed out on {module} {inv}")
    if "EXITCODE: OK" in p.stdout:
        return True
    if "EXITCODE: ERROR (12)" in p.stdout or "violat" in p.stdout.lower():
        return False
    raise ToolError("apalache failed: " + p.stdout[-500:])


class Evidence:
    def __init__(self, pid, tier, level):
        self.pid, self.tier, self.level = pid, tier, level
        self.t0 = time.time()
        self.cov = {"evaluations": 0, "distinct_nontrivial": 0, "rule": "", "samples": [],
                    "states": 0, "transitions": 0, "traces_validated_against_impl": 0,
                    "exhaustive": False}
        self.assumptions = []
        self.violations = 0
        self.extra = {}

    def add(self, **kw):
        for k, v in kw.items():
            if isinstance(v, int) and isinstance(self.cov.get(k), int) and not isinstance(v, bool):
                self.cov[k] += v
            else:
                self.cov[k] = v

    def sample(self, s, cap=6):
        if len(self.cov["samples"]) < cap:
            self.cov["samples"].append(s)

    def tlc(self, r: "TlcResult"):
        self.cov["states"] += r.distinct
        self.cov["transitions"] += max(r.generated - 0, 0)

    def write(self):
        ensure_dirs()
        doc = {"property_id": self.pid, "tier": self.tier, "seed": seed(), "level": self.level,
               "coverage": self.cov, "assumptions": self.assumptions,
               "wall_s": round(time.time() - self.t0, 2), "violations": self.violations}
        doc.update(self.extra)
        path = os.path.join(EVID, f"{self.pid}.json")
        tmp = path + ".tmp"
        with open(tmp, "w") as f:
            json.dump(doc, f, indent=1, default=str)
        os.replace(tmp, path)
        return path


def load_known():
    path = os.path.join(VERIF, "known_findings.json")
    if not os.path.exists(path):
        return []
    with open(path) as f:
        return json.load(f).get("findings", [])


def write_replay(pid, name, doc):
    ensure_dirs()
    d = os.path.join(REPLAY, pid)
    os.makedirs(d, exist_ok=True)
    path = os.path.join(d, name + ".json")
    with open(path, "w") as f:
        json.dump(doc, f, indent=1, default=str)
    return path


class Verdict:
    """Collects violations / known findings for one check run and decides the exit code."""

    def __init__(self, pid, ev: Evidence):
        self.pid, self.ev = pid, ev
        self.viol = []
        self.known = {}
        self.nonconf = []
        self.known_list = [k for k in load_known() if k.get("property") == pid and k.get("status") == "known"]

    def violation(self, key, what, doc):
        """key: short stable identifier of the failing case; doc: self-contained replay scenario."""
        for k in self.known_list:
            if _match_known(k, key, doc):
                self.known.setdefault(k["id"], [k, 0])[1] += 1
                return
        if len(self.viol) < 20:
            path = write_replay(self.pid, re.sub(r"[^A-Za-z0-9_.-]", "_", key)[:80], dict(doc, what=what, property=self.pid))
            self.viol.append((what, path))
        else:
            self.viol.append((what, self.viol[0][1]))

    def nonconformance(self, what):
        if len(self.nonconf) < 50:
            self.nonconf.append(what)

    def finish(self):
        for kid, (k, n) in self.known.items():
            print(f"KNOWN-FINDING: property={self.pid} {k['what']} (id={kid}, {n} case(s) this run)")
        for w in self.nonconf[:10]:
            print(f"NONCONFORMANCE property={self.pid} {w}")
        self.ev.extra["nonconformance"] = self.nonconf[:50]
        self.ev.extra["known_findings_seen"] = {k: v[1] for k, v in self.known.items()}
        self.ev.violations = len(self.viol)
        self.ev.write()
        if self.viol:
            seen = set()
            for w, path in self.viol:
                if path in seen:
                    continue
                seen.add(path)
                print(f"VIOLATION property={self.pid} replay={path}")
                print(f"  {w}")
            return 1
        if not self.ev.cov["evaluations"] or not self.ev.cov["distinct_nontrivial"]:
            # vacuity guard: "held on everything explored" must not be said of nothing (a generator that silently
            # produced no non-trivial case is tool trouble, exit 2)
            raise ToolError(f"vacuous run: evaluations={self.ev.cov['evaluations']} distinct_nontrivial={self.ev.cov['distinct_nontrivial']}")
        print(f"OK property={self.pid} tier={self.ev.tier} evaluations={self.ev.cov['evaluations']} "
              f"states={self.ev.cov['states']} wall={time.time()-self.ev.t0:.1f}s")
        return 0


def harness_died(vd, what, p):
    """A harness binary that runs the code under test ended abnormally.  Exit 101 (a Rust panic that reached main), 134 / -6
    (abort) and -11 mean code under test blew up outside a guarded call - that is data about the code (the harness itself
    passes on the unchanged tree), so it is a violation with the output kept; anything else is tool trouble."""
    err = p.stderr.decode("utf8", "replace")[-2000:] if p.stderr else ""
    if p.returncode in (101, 134, -6, -11, -4, -8):
        vd.violation("harness-aborted-" + re.sub(r"[^a-z0-9]+", "-", what.lower()),
                     f"{what}: the process running the code under test ended with status {p.returncode} (panic / abort outside a guarded call): {err[-300:].strip()}",
                     {"kind": "harness-abort", "what": what, "status": p.returncode, "stderr": err})
        return True
    raise ToolError(f"{what} failed (status {p.returncode}): " + err)


def _match_known(k, key, doc):
    m = k.get("match", {})
    if "key_regex" in m and not re.search(m["key_regex"], key):
        return False
    for field, want in m.get("fields", {}).items():
        if doc.get(field) != want:
            return False
    return bool(m)


def run_cmd(cmd, timeout=600, cwd=None, env=None, input=None):
    p = subprocess.run(cmd, cwd=cwd, env=env, stdout=subprocess.PIPE, stderr=subprocess.PIPE,
                       timeout=timeout, input=input)
    return p


def shm_dir(name):
    base = "/dev/shm" if os.path.isdir("/dev/shm") else "/tmp"
    d = os.path.join(base, f"copia-verif-{name}-{os.getpid()}")
    shutil.rmtree(d, ignore_errors=True)
    os.makedirs(d)
    return d
