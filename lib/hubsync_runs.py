"""C13 binding: real `copia hub-sync LOCAL TARGET` runs.  Sequential histories (graph walk over hub tree x local
trees, both target forms) and the concurrent window (client A's server held at its first staging open by the
scheduling shim while client B runs to completion)."""
import json
import os
import random
import re
import select
import shutil
import socket
import subprocess
import threading
from multiprocessing import Pool

NAMES = ["a", "d/b", ".copiarc", "with space/q'uote", "d\\b", "raw\udcff.bin", "d", "d.txt", "a.conflict-0da8ee51c1f8"]          # 'd\\b' is ONE component containing a backslash; the last name is the byte string b'raw\\xff.bin' (not UTF-8); 'd' is a FILE named like the directory of 'd/b' (one tree never holds both); 'd.txt' sorts BEFORE 'd/b' as a string and AFTER it as a path; the last name is what a conflict-copy of content 5 on 'a' would be called - an ordinary file when a client owns one (scripted histories only)
CONTENT = {1: b"one-" * 50 + b"\n", 2: b"two!" * 700 + b"\n" + b"\0" * 140_000, 3: b"", 4: b"four" * 20000,
           5: b"five, owned by one client\n" * 3,          # content 5 appears in one scripted history only
           6: b"uno-" * 50 + b"\n"}          # content 6: as long as content 1, other bytes (scripted windows only: a version that replaces
                                             # another of the same size within the same second looks "unchanged" to size + mtime)
BY_BYTES = {v: k for k, v in CONTENT.items()}
CFG = {}


def _init(copia, shim, shimdir, root, hexes):
    import multiprocessing
    ident = multiprocessing.current_process()._identity
    d = os.path.join(root, f"w{ident[0] if ident else 0}")
    shutil.rmtree(d, ignore_errors=True)
    os.makedirs(d)
    bindir = os.path.join(d, "bin")
    os.makedirs(bindir)
    os.symlink(copia, os.path.join(bindir, "copia"))
    CFG.update(copia=copia, shim=shim, shimdir=shimdir, dir=d, bindir=bindir, hexes=hexes)


def _env(extra=None):
    e = dict(os.environ)
    e.update({"RUST_LOG": "off", "PATH": CFG["shimdir"] + ":" + CFG["bindir"] + ":" + os.environ.get("PATH", ""), "HOME": CFG["dir"]})
    if extra:
        e.update(extra)
    return e


CONF_NAME = "a.conflict-0da8ee51c1f8"


def consistent(tree, rng=None):
    """a tree holds the file 'd' or something under the directory 'd/', never both"""
    t = list(tree)
    i, j = NAMES.index("d"), NAMES.index("d/b")
    if t[i] and t[j]:
        t[(i if (rng.random() < 0.5 if rng else True) else j)] = 0
    return t


def blocked(local, hub):
    """the local tree holds a file where the hub has a directory, or the other way round: that Put cannot be stored"""
    i, j = NAMES.index("d"), NAMES.index("d/b")
    return bool((local[i] and hub[j]) or (local[j] and hub[i]))


def write_tree(root, tree):
    shutil.rmtree(root, ignore_errors=True)
    os.makedirs(root)
    tree = consistent(tree)
    for n, c in zip(NAMES, tree):
        if c:
            p = os.path.join(root, n)
            os.makedirs(os.path.dirname(p), exist_ok=True)
            open(p, "wb").write(CONTENT[c])


def read_hub(root):
    arr = [0] * len(NAMES)
    conf, alien = [], []
    for dp, dn, fn in os.walk(root):
        if os.path.relpath(dp, root).startswith(".copia"):
            continue
        for f in fn:
            rel = os.path.relpath(os.path.join(dp, f), root)
            c = BY_BYTES.get(open(os.path.join(dp, f), "rb").read(), -1)
            if rel in NAMES:
                arr[NAMES.index(rel)] = c
                continue
            m = re.match(r"^(.*)\.conflict-([0-9a-f]{12})$", rel)
            if m and m.group(1) in NAMES and m.group(2) in CFG["hexes"]:
                conf.append([NAMES.index(m.group(1)) + 1, c if CFG["hexes"][m.group(2)] == c else -1])
            elif not rel.endswith(".copia-tmp"):
                alien.append(rel)
    return arr, sorted(conf), alien


_DONE = re.compile(rb"Hub push complete: (\d+) sent, (\d+) unchanged, (\d+) conflict")


def hub_sync(local, hub, form, env=None):
    target = hub if form == "path" else f"hh:{hub}"
    # cwd = the worker's scratch directory: a client that misreads the target as a relative path litters there, not in /verif
    p = subprocess.run([CFG["copia"], "hub-sync", local, target], env=env or _env(), cwd=CFG["dir"], stdout=subprocess.PIPE, stderr=subprocess.PIPE, timeout=120)
    m = _DONE.search(p.stdout)
    s, u, c = (int(x) for x in m.groups()) if m else (-1, -1, -1)
    return p.returncode, s, u, c, p.stderr.decode("utf8", "replace")[-200:]


def snapshot(root):
    out = []
    for dp, dn, fn in os.walk(root):
        for f in sorted(fn):
            p = os.path.join(dp, f)
            out.append((os.path.relpath(p, root), os.lstat(p).st_ino, open(p, "rb").read()))      # inode: a re-sent file is a new one
    return sorted(out)


def _tree_of(d):
    return [d.get(n, 0) for n in NAMES]


# scripted histories: a file where the other client has already put a directory, and the reverse; then the client clears the clash
SCRIPTS = [
    [(0, {"d/b": 1, "a": 1}), (1, {"d": 2, "a": 1, ".copiarc": 3}), (1, {"a": 1, ".copiarc": 3})],
    [(0, {"d": 1}), (1, {"d/b": 2, "a": 3}), (1, {"a": 3})],
    [(0, {"d/b": 2}), (1, {"a": 2, "d": 2, "with space/q'uote": 1}), (0, {"d/b": 2, "a": 3})],
    # one client owns a file named like a conflict-copy; another then commits that very content at the plain path (and again
    # after a change): the first client's file is a hub file at another path, untouched
    [(0, {CONF_NAME: 5, ".copiarc": 1}), (1, {"a": 5}), (1, {"a": 1}), (1, {"a": 5, "d.txt": 2})],
]


# scripted stale-listing windows: while A's server is parked at its first staging open, B commits a directory where A is about
# to send a file (A parked on that very Put, or on an earlier one), or a file where A is about to send into a directory
CLASH_RACES = [
    {"hub": {}, "A": {"d": 2, "with space/q'uote": 2}, "B": {"d/b": 1}},
    {"hub": {}, "A": {"a": 2, "d": 2, "with space/q'uote": 1}, "B": {"d/b": 1, "a": 1}},
    {"hub": {"a": 1}, "A": {"a": 2, "d/b": 2, "with space/q'uote": 2}, "B": {"d": 1}},
    {"hub": {}, "A": {"a": 4, "d/b": 1, "d\\b": 2}, "B": {"d": 3}},
]
# ... and windows in which the file that loses its CAS is EMPTY (its conflict-copy is a zero-byte file, and has to exist)
EMPTY_RACES = [
    {"hub": {}, "A": {"a": 3, "with space/q'uote": 2}, "B": {"a": 1}},
    {"hub": {"a": 1, ".copiarc": 1}, "A": {"a": 3, ".copiarc": 3, "d.txt": 4}, "B": {"a": 2, ".copiarc": 2}},
]


# ... and windows in which B replaces the listed version by one of the SAME LENGTH (within the same second, as things go here):
# A's stale Put has to lose all the same - what counts is the content's hash at the moment of the compare
SAMELEN_RACES = [
    {"hub": {"a": 1, "d.txt": 1}, "A": {"a": 2, "d.txt": 4}, "B": {"a": 6, "d.txt": 6}},
    {"hub": {"a": 6, "with space/q'uote": 1}, "A": {"a": 4, "with space/q'uote": 2}, "B": {"a": 1, "with space/q'uote": 6}},
]


def run_history(job):
    seed, length = job[0], job[1]
    script = job[2] if len(job) > 2 else None
    rng = random.Random(seed)
    d = CFG["dir"]
    hub = os.path.join(d, "hub:2026-09-25T10:30")
    shutil.rmtree(hub, ignore_errors=True)
    os.makedirs(hub)
    locs = [consistent([rng.choice([0, 1, 2, 3, 4 if rng.random() < 0.2 else 2]) for _ in NAMES], rng) for _ in range(2)]
    for t in locs:
        t[NAMES.index(CONF_NAME)] = 0          # (random trees never hold it: a real conflict-copy of that name would be told apart by a suffix)
    recs = []
    for step in range(len(script) if script else length):
        c = rng.randrange(2)
        if script:
            c = script[step][0]
            locs[c] = _tree_of(script[step][1])
        elif rng.random() < 0.4:
            i = rng.randrange(len(NAMES) - 1)
            locs[c][i] = rng.choice([0, 1, 2, 3])
            locs[c] = consistent(locs[c], rng)
        local = os.path.join(d, f"local{c}")
        write_tree(local, locs[c])
        before, conf_b, _ = read_hub(hub)
        form = rng.choice(["path", "host"])
        code, s, u, cf, err = hub_sync(local, hub, form)
        after, conf_a, alien = read_hub(hub)
        snap1 = snapshot(hub)
        code2, s2, u2, cf2, _ = hub_sync(local, hub, form)
        snap2 = snapshot(hub)
        recs.append({"kind": "seq", "names": NAMES, "form": form, "client": c, "local": list(locs[c]),
                     "unsendable": any(v and "\udcff" in NAMES[i] for i, v in enumerate(locs[c])), "hub": before, "conf": conf_b, "hub2": after, "conf2": conf_a,
                     "blocked": blocked(locs[c], before), "alien": alien, "exit": code, "sent": s, "skipped": u, "conflicts": cf,
                     "second": {"exit": code2, "sent": s2, "conflicts": cf2, "unchanged": snap1 == snap2}, "stderr": err if code else ""})
    return recs


def race(job):
    """client A's serve is held at its first staging open while client B syncs; then A is released"""
    seed, form = job[0], job[1]
    hold_at = job[2] if len(job) > 2 else "stage"
    rng = random.Random(seed)
    d = CFG["dir"]
    hub = os.path.join(d, "hub:2026-09-25T10:30")
    hub0 = [rng.choice([0, 1]) for _ in NAMES]
    write_tree(hub, hub0)
    # (the name the wire cannot carry makes a client refuse to start: it is left to the sequential runs)
    sendable = [i for i, n in enumerate(NAMES) if n.isprintable() and "\udcff" not in n and n != "d" and n != CONF_NAME]
    hub0 = [c if i in sendable else 0 for i, c in enumerate(hub0)]
    write_tree(hub, hub0)
    la = [rng.choice([0, 2, 2, 4]) if i in sendable else 0 for i, _ in enumerate(NAMES)]
    lb = [rng.choice([0, 3, 1, 2]) if i in sendable else 0 for i, _ in enumerate(NAMES)]
    k = rng.choice(sendable)
    la[k], lb[k] = 2, rng.choice([1, 3])          # at least one path both want, with different content
    if hub0[k] == lb[k]:
        lb[k] = 3 if lb[k] == 1 else 1
    if len(job) > 3:
        # a scripted window: the three trees are given (file / directory clashes between what A sends and what B commits)
        hub0, la, lb = (_tree_of(job[3][x]) for x in ("hub", "A", "B"))
        write_tree(hub, hub0)
    A, B = os.path.join(d, "localA"), os.path.join(d, "localB")
    write_tree(A, la)
    write_tree(B, lb)
    sockp = os.path.join(d, "ctl.sock")
    if os.path.exists(sockp):
        os.unlink(sockp)
    ls = socket.socket(socket.AF_UNIX, socket.SOCK_STREAM)
    ls.bind(sockp)
    ls.listen(8)
    state = {"held": None, "released": False, "resB": None}

    def controller():
        conns = []
        while not state.get("stop"):
            r, _, _ = select.select([ls] + conns, [], [], 0.05)
            for x in r:
                if x is ls:
                    c, _ = ls.accept()
                    conns.append(c)
                    continue
                try:
                    data = x.recv(65536)
                except OSError:
                    data = b""
                if not data:
                    conns.remove(x)
                    continue
                for line in data.split(b"\n"):
                    if line.startswith(b"A "):
                        parts = line.decode("utf8", "replace").split(" ", 8)
                        call, paths = parts[5], parts[8]
                        want_hold = (call == "open" and ".copia-tmp" in paths) if hold_at == "stage" else (call == "flock")
                        if not state["released"] and state["held"] is None and want_hold:
                            state["held"] = x          # A's server is about to stage / to take the commit lock: hold it here
                        else:
                            x.sendall(b"g")
            if state["held"] is not None and state["resB"] is not None and not state["released"]:
                state["released"] = True
                state["held"].sendall(b"g")

    th = threading.Thread(target=controller, daemon=True)
    th.start()
    # (the shim's root list is ':'-separated and the hub directory's name contains colons: track the worker directory above it)
    envA = _env({"LD_PRELOAD": CFG["shim"], "COPIA_SHIM_ROOTS": d, "COPIA_SHIM_SOCK": sockp})
    resA = {}

    def runA():
        resA["r"] = hub_sync(A, hub, form, env=envA)
    ta = threading.Thread(target=runA)
    ta.start()
    import time
    t0 = time.time()
    while state["held"] is None and ta.is_alive() and time.time() - t0 < 20:
        time.sleep(0.005)
    held = state["held"] is not None
    state["resB"] = hub_sync(B, hub, "path")
    ta.join(60)
    state["stop"] = True
    th.join(2)
    ls.close()
    after, conf_a, alien = read_hub(hub)
    ra = resA.get("r", (99, -1, -1, -1, "no result"))
    i, j = NAMES.index("d"), NAMES.index("d/b")
    # A's own files whose path is a file where B committed a directory, or the reverse (no Put can store them at their path)
    clash = [bool((k == i and la[i] and lb[j]) or (k == j and la[j] and lb[i])) for k in range(len(NAMES))]
    return [{"kind": "race", "names": NAMES, "form": form, "hub": hub0, "localA": la, "localB": lb, "hub2": after, "conf2": conf_a, "alien": alien, "clash": clash,
             "exitA": ra[0], "sentA": ra[1], "conflictsA": ra[3], "exitB": state["resB"][0], "held": held, "hold_at": hold_at, "stderrA": ra[4][-160:]}]


def large_tree(n):
    """a flat local tree of n small files: first run must land it, the second must send nothing"""
    d = CFG["dir"]
    local, hub = os.path.join(d, "biglocal"), os.path.join(d, "bighub")
    for x in (local, hub):
        shutil.rmtree(x, ignore_errors=True)
        os.makedirs(x)
    for i in range(n):
        with open(os.path.join(local, f"file_{i:06d}.txt"), "w") as f:
            f.write(f"content {i}\n")
    code, s, u, c, err = hub_sync(local, hub, "path")
    landed = all(os.path.exists(os.path.join(hub, f"file_{i:06d}.txt")) and open(os.path.join(hub, f"file_{i:06d}.txt")).read() == f"content {i}\n" for i in range(n))
    snap1 = sorted((x, os.lstat(os.path.join(hub, x)).st_ino) for x in os.listdir(hub) if x != ".copia")
    code2, s2, u2, c2, err2 = hub_sync(local, hub, "path")
    snap2 = sorted((x, os.lstat(os.path.join(hub, x)).st_ino) for x in os.listdir(hub) if x != ".copia")
    rec = {"kind": "large", "n": n, "hub": [], "exit": code, "sent": s, "landed": landed,
           "second": {"exit": code2, "sent": s2, "conflicts": c2, "unchanged": snap1 == snap2}, "stderr": (err + " / " + err2)[-200:]}
    shutil.rmtree(local, ignore_errors=True)
    shutil.rmtree(hub, ignore_errors=True)
    return [rec]


def run_all(copia, shim, shimdir, root, hexes, hist_jobs, race_jobs, nproc=8, large=()):
    with Pool(nproc, initializer=_init, initargs=(copia, shim, shimdir, root, hexes)) as pool:
        out = []
        for recs in pool.imap_unordered(run_history, hist_jobs):
            out.extend(recs)
        for recs in pool.imap_unordered(race, race_jobs):
            out.extend(recs)
        for recs in pool.imap_unordered(large_tree, list(large)):
            out.extend(recs)
    return out
