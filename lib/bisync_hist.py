"""Seeded long histories of the real `copia bisync` over universes larger than the exhaustive graph (several base
paths, nesting, hostile names, conflict-copies edited / deleted by the user, archive faults, file/directory clashes).
One record per run for BisyncHistTrace.tla."""
import json
import os
import random
import shutil
import subprocess
from multiprocessing import Pool

HOST = "hh"
BASES = ["p", "q", "d/r", "d/m", "d/z", "d/e/s", "sp ace", "uni-ü", "q'uote", "-dash", "dot.file.ext", "d/new\nline", "d.txt", "d-x", "d e"]
CONTENT = {1: b"one-1\n", 2: b"two-2\n", 3: b"three\n" * 3, 4: b"", 5: b"0123456789abcdef" * 20000}
BY_BYTES = {v: k for k, v in CONTENT.items()}
CFG = {}


LINK = 6          # version id of "a symbolic link to CFG['link_target']" (bisync fingerprints the target string)


def _init(copia, root, link_target=None):
    import multiprocessing
    ident = multiprocessing.current_process()._identity
    CFG.update(copia=copia, dir=os.path.join(root, f"w{ident[0] if ident else 0}"), link_target=link_target)


def _env(home):
    e = dict(os.environ)
    e.update({"HOME": home, "HOSTNAME": HOST, "RUST_LOG": "off", "LC_ALL": "C.UTF-8"})
    return e


def tree(root):
    out = {}
    for dp, dn, fn in os.walk(root):
        for f in fn:
            p = os.path.join(dp, f)
            if os.path.islink(p):
                out[os.path.relpath(p, root)] = LINK if os.readlink(p) == CFG.get("link_target") else -1
                continue
            out[os.path.relpath(p, root)] = BY_BYTES.get(open(p, "rb").read(), -1)
    return out


def archive(home, pair):
    path = os.path.join(home, ".copia", "archive", (pair or "x") + ".json")
    try:
        d = json.loads(open(path, "rb").read())
        if d.get("format_version") != 1 or d.get("root_pair_hash") != pair:
            return False, {}
        return True, {k: bytes(v["blake3"]).hex() for k, v in d["entries"].items()}
    except Exception:
        return False, {}


def _dir_then_file(x, y, name):
    """a path that was a common file is deleted on both sides and becomes a DIRECTORY on one; after a run the directory
    goes away again and one side re-creates the file with its old bytes: a creation, not the echo of a delete"""
    return [("put", x, name, 1), ("put", y, name, 1), ("run",), ("rm", x, name), ("rm", y, name), ("mkdir", x, name, 2), ("run",),
            ("rmtree", x, name), ("rmtree", y, name), ("put", x, name, 1), ("run",), ("run",)]


SCRIPTS = [_dir_then_file("A", "B", "p"), _dir_then_file("B", "A", "d/r"), _dir_then_file("A", "B", "sp ace")]


def run_history(job):
    seed, length, hexes = job[0], job[1], job[2]
    rng = random.Random(seed)
    d = CFG["dir"]
    shutil.rmtree(d, ignore_errors=True)
    A, B, home = os.path.join(d, "A"), os.path.join(d, "B"), os.path.join(d, "home")
    for x in (A, B, home):
        os.makedirs(x)
    bases = rng.sample(BASES, rng.randint(2, 5))
    cids = [1, 2, 3] + ([4] if rng.random() < 0.3 else []) + ([5] if rng.random() < 0.15 else [])
    if CFG.get("link_target") and rng.random() < 0.35:
        cids.append(LINK)
    last = {}
    pair = None
    recs = []

    def put(side, name, c):
        p = os.path.join(side, name)
        try:
            os.makedirs(os.path.dirname(p), exist_ok=True)
            if os.path.isdir(p) and not os.path.islink(p):
                return
            if os.path.islink(p) or c == LINK:
                try:
                    os.unlink(p)
                except FileNotFoundError:
                    pass
            if c == LINK:
                os.symlink(CFG["link_target"], p)
                return
            with open(p, "wb") as f:
                f.write(CONTENT[c])
            t = rng.choice([1_000_000_000, 1_700_000_000, 2_000_000_000])
            os.utime(p, (t, t))
        except OSError:
            pass

    script = job[3] if len(job) > 3 else None
    for step in range(len(script) if script else length):
        r = rng.random()
        side = rng.choice([A, B])
        if script:
            op = script[step]
            sd = A if len(op) > 1 and op[1] == "A" else B
            if op[0] == "put":
                put(sd, op[2], op[3])
                continue
            if op[0] == "rm":
                try:
                    os.unlink(os.path.join(sd, op[2]))
                except OSError:
                    pass
                continue
            if op[0] == "mkdir":
                os.makedirs(os.path.join(sd, op[2]), exist_ok=True)
                put(sd, op[2] + "/inner", op[3])
                continue
            if op[0] == "rmtree":
                shutil.rmtree(os.path.join(sd, op[2]), ignore_errors=True)
                continue
            r = 1.0                                   # ("run",): the last branch below
        if r < 0.40:
            put(side, rng.choice(bases), rng.choice(cids))
        elif r < 0.52:
            files = list(tree(side))
            if files:
                os.unlink(os.path.join(side, rng.choice(files)))
        elif r < 0.60:
            cc = [f for f in tree(side) if ".conflict-" in f]
            if cc:
                f = rng.choice(cc)
                if rng.random() < 0.5:
                    put(side, f, rng.choice(cids))
                else:
                    os.unlink(os.path.join(side, f))
        elif r < 0.66 and pair:
            ap = os.path.join(home, ".copia", "archive", pair + ".json")
            if os.path.exists(ap):
                raw = open(ap, "rb").read()
                k = rng.randrange(7)
                if k == 6:
                    open(ap, "wb").write(raw.replace(b'"format_version": 1,', b''))
                elif k == 0:
                    os.unlink(ap)
                elif k == 1:
                    open(ap, "wb").write(raw[:rng.randrange(max(1, len(raw)))])
                elif k == 2:
                    open(ap, "wb").write(b"")
                elif k == 3:
                    open(ap, "wb").write(raw.replace(b'"format_version": 1', b'"format_version": 2'))
                elif k == 4:
                    os.rename(ap, ap + ".bak")
                else:
                    open(ap, "wb").write(bytes(rng.randrange(256) for _ in range(100)))
        elif r < 0.72:
            # the user removes a whole sub-directory on one side (rm -r)
            dirs = [x for x in os.listdir(side) if os.path.isdir(os.path.join(side, x))]
            if dirs:
                shutil.rmtree(os.path.join(side, rng.choice(dirs)), ignore_errors=True)
        elif r < 0.75:
            # file / directory clash: a directory where the other side has (or will have) a file
            name = rng.choice(bases)
            p = os.path.join(side, name)
            if not os.path.exists(p):
                try:
                    os.makedirs(p)
                    put(side, name + "/inner", rng.choice(cids))
                except OSError:
                    pass
        else:
            a0, b0 = tree(A), tree(B)
            tr0, e0 = archive(home, pair)
            p = subprocess.run([CFG["copia"], "bisync", A, B], env=_env(home), stdout=subprocess.PIPE, stderr=subprocess.PIPE, timeout=120)
            if pair is None:
                adir = os.path.join(home, ".copia", "archive")
                fs = [f for f in os.listdir(adir) if f.endswith(".json")] if os.path.isdir(adir) else []
                pair = fs[0][:-5] if fs else None
            a1, b1 = tree(A), tree(B)
            tr1, e1 = archive(home, pair)
            completed = p.returncode == 0 or (p.returncode == 1 and b"had conflicts" in p.stderr)
            import re
            m = re.search(rb"Bidirectional plan: (\d+) action", p.stderr)
            names = sorted(set(a0) | set(b0) | set(a1) | set(b1) | set(e0) | set(e1) | set(last))
            stg = any(n.endswith(".copia-tmp") for n in names)
            names = [n for n in names if not n.endswith(".copia-tmp")]
            idx = {n: i for i, n in enumerate(names)}
            fam = [[j + 1 for j, m2 in enumerate(names) if m2 == n or m2.startswith(n + ".conflict-")] for n in names]
            arr = lambda t: [t.get(n, 0) for n in names]
            earr = lambda e: [hexes.get(e[n], -2) if n in e else 0 for n in names]
            recs.append({"seed": seed, "step": step, "names": names, "fam": fam, "A": arr(a0), "B": arr(b0), "E": earr(e0), "tr": tr0, "stg": stg,
                         "last": arr(last), "A2": arr(a1), "B2": arr(b1), "altA2": arr(a1), "altB2": arr(b1), "E2": earr(e1), "tr2": tr1, "exit": p.returncode,
                         "completed": completed, "nplan": int(m.group(1)) if m else -1, "stderr": p.stderr.decode("utf8", "replace")[-160:] if not completed else ""})
            if completed:
                last = {n: a1[n] for n in a1 if b1.get(n) == a1[n]}
    return recs


PAIR_NAMES = [(b"Ren\xe9", b"Ren\xe8"), (b"dirA", b"dira"), (b"x y", b"x  y"), (b"ab", b"a b"), (b"caf\xc3\xa9", b"cafe\xcc\x81"),
              (b"\xff\xfe", b"\xfe\xff"), (b"a", b"a.conflict-hh-000000000000"), (b"n\xc3", b"n\xc4"), (b"tab\tx", b"tab x"), (b"UP", b"up")]


def pair_identity(job):
    """C07 'archive of another pair': pair (X, M) is synced; then (X', M) with X' a DIFFERENT directory whose name is
    adversarially close to X (invalid UTF-8, case, spacing, normalisation forms).  The second run has no base."""
    k, hexes = job
    n1, n2 = PAIR_NAMES[k]
    d = os.fsencode(os.path.join(CFG["dir"], f"pid{k}"))
    shutil.rmtree(d, ignore_errors=True)
    X, X2, M, home = os.path.join(d, n1), os.path.join(d, n2), os.path.join(d, b"mirror"), os.path.join(d, b"home")
    for x in (X, X2, M, home):
        os.makedirs(x)
    for side in (X, M):
        open(os.path.join(side, b"f"), "wb").write(CONTENT[1])
        open(os.path.join(side, b"g"), "wb").write(CONTENT[2])
    open(os.path.join(X2, b"f"), "wb").write(CONTENT[1])          # X' has f but not g: with pair 1's archive as base, g would be deleted from M
    env = {os.fsencode(k2): os.fsencode(v) for k2, v in _env(os.fsdecode(home)).items()}
    env[b"HOME"] = home
    p1 = subprocess.run([os.fsencode(CFG["copia"]), b"bisync", X, M], env=env, stdout=subprocess.PIPE, stderr=subprocess.PIPE, timeout=60)
    a0 = {os.fsdecode(k3): v for k3, v in tree(X2).items()} if False else tree(os.fsdecode(X2)) if _decodable(X2) else _tree_b(X2)
    b0 = tree(os.fsdecode(M))
    p2 = subprocess.run([os.fsencode(CFG["copia"]), b"bisync", X2, M], env=env, stdout=subprocess.PIPE, stderr=subprocess.PIPE, timeout=60)
    a1 = tree(os.fsdecode(X2)) if _decodable(X2) else _tree_b(X2)
    b1 = tree(os.fsdecode(M))
    names = sorted(set(a0) | set(b0) | set(a1) | set(b1))
    fam = [[j + 1 for j, m2 in enumerate(names) if m2 == n or m2.startswith(n + ".conflict-")] for n in names]
    arr = lambda t: [t.get(n, 0) for n in names]
    completed = p2.returncode == 0 or (p2.returncode == 1 and b"had conflicts" in p2.stderr)
    return [{"seed": f"pair-identity-{k}", "step": 0, "names": names, "fam": fam, "A": arr(a0), "B": arr(b0), "E": [0] * len(names), "tr": False, "stg": False,
             "last": [0] * len(names), "A2": arr(a1), "B2": arr(b1), "altA2": arr(a1), "altB2": arr(b1), "E2": arr(a1) if completed else [0] * len(names), "tr2": completed, "exit": p2.returncode,
             "completed": completed, "nplan": -1, "stderr": (repr(n1) + " vs " + repr(n2) + " banner=" + str(b"SAFE no-base" in p2.stderr))}]


PAIR_SEPS = [":", "", " ", "\n", "|", ",", "\t", ";", "::", "\\", "=", "->", "\x01", "\x1f"]


def pair_concat(job):
    """C07 'archive of another pair', two pairs whose root strings CONCATENATE to the same text under some separator:
    (d/x, d/y<sep>d/z) and (d/x<sep>d/y, d/z) - directories whose names contain the separator and that continue with a
    copy of d's own path.  Whatever identifies a pair must tell these two apart: the second run has no base."""
    k, _ = job
    sep = PAIR_SEPS[k]
    d = os.path.realpath(os.path.join(CFG["dir"], f"cat{k}"))
    shutil.rmtree(d, ignore_errors=True)
    A1, B1 = d + "/x", d + "/y" + sep + d + "/z"
    A2, B2 = d + "/x" + sep + d + "/y", d + "/z"
    home = os.path.join(d, "home")
    for x in (A1, B1, A2, B2, home):
        os.makedirs(x, exist_ok=True)
    for side in (A1, B1, B2):
        open(os.path.join(side, "f"), "wb").write(CONTENT[1])
        open(os.path.join(side, "g"), "wb").write(CONTENT[2])
    open(os.path.join(A2, "f"), "wb").write(CONTENT[1])          # A2 has f but not g: with pair 1's archive as base, g would be deleted from B2

    def tr(root):           # the roots are nested in one another's ancestors: only the two files at the top of each count
        return {n: v for n, v in tree(root).items() if "/" not in n}
    subprocess.run([CFG["copia"], "bisync", A1, B1], env=_env(home), stdout=subprocess.PIPE, stderr=subprocess.PIPE, timeout=60)
    a0, b0 = tr(A2), tr(B2)
    p2 = subprocess.run([CFG["copia"], "bisync", A2, B2], env=_env(home), stdout=subprocess.PIPE, stderr=subprocess.PIPE, timeout=60)
    a1, b1 = tr(A2), tr(B2)
    names = sorted(set(a0) | set(b0) | set(a1) | set(b1))
    fam = [[j + 1 for j, m2 in enumerate(names) if m2 == n or m2.startswith(n + ".conflict-")] for n in names]
    arr = lambda t: [t.get(n, 0) for n in names]
    completed = p2.returncode == 0 or (p2.returncode == 1 and b"had conflicts" in p2.stderr)
    return [{"seed": f"pair-concat-{k}", "step": 0, "names": names, "fam": fam, "A": arr(a0), "B": arr(b0), "E": [0] * len(names), "tr": False, "stg": False,
             "last": [0] * len(names), "A2": arr(a1), "B2": arr(b1), "altA2": arr(a1), "altB2": arr(b1), "E2": arr(a1) if completed else [0] * len(names), "tr2": completed, "exit": p2.returncode,
             "completed": completed, "nplan": -1, "stderr": f"separator {sep!r} exit={p2.returncode} banner=" + str(b"SAFE no-base" in p2.stderr)}]


def pair_relative(job):
    """C07 'archive of another pair', spelled relatively: `bisync <abs docs> backup` is run from inside two different
    directories (a root that does not exist yet is created and the command repeated, as a user would).  The second
    `backup` is another directory: whatever was recorded for the first pair must not be read as its base."""
    k, _ = job
    d = os.path.join(CFG["dir"], f"rel{k}")
    shutil.rmtree(d, ignore_errors=True)
    docs, home = os.path.join(d, "docs"), os.path.join(d, "home")
    for x in (docs, home, os.path.join(d, "cwd1"), os.path.join(d, "cwd2")):
        os.makedirs(x)
    open(os.path.join(docs, "f"), "wb").write(CONTENT[1])
    open(os.path.join(docs, "g"), "wb").write(CONTENT[2])
    spelled = ["backup", "./backup", "sub/../backup", "backup/"][k % 4]

    def run_in(cwd):
        p = subprocess.run([CFG["copia"], "bisync", docs, spelled], cwd=cwd, env=_env(home), stdout=subprocess.PIPE, stderr=subprocess.PIPE, timeout=60)
        if p.returncode not in (0,) and not os.path.isdir(os.path.join(cwd, "backup")):
            os.makedirs(os.path.join(cwd, "backup"), exist_ok=True)
            os.makedirs(os.path.join(cwd, "sub"), exist_ok=True)
            p = subprocess.run([CFG["copia"], "bisync", docs, spelled], cwd=cwd, env=_env(home), stdout=subprocess.PIPE, stderr=subprocess.PIPE, timeout=60)
        return p
    os.makedirs(os.path.join(d, "cwd1", "sub"))
    os.makedirs(os.path.join(d, "cwd2", "sub"))
    run_in(os.path.join(d, "cwd1"))
    a0 = tree(docs)
    b0 = tree(os.path.join(d, "cwd2", "backup")) if os.path.isdir(os.path.join(d, "cwd2", "backup")) else {}
    p2 = run_in(os.path.join(d, "cwd2"))
    a1 = tree(docs)
    b1 = tree(os.path.join(d, "cwd2", "backup")) if os.path.isdir(os.path.join(d, "cwd2", "backup")) else {}
    names = sorted(set(a0) | set(b0) | set(a1) | set(b1))
    fam = [[j + 1 for j, m2 in enumerate(names) if m2 == n or m2.startswith(n + ".conflict-")] for n in names]
    arr = lambda t: [t.get(n, 0) for n in names]
    completed = p2.returncode == 0 or (p2.returncode == 1 and b"had conflicts" in p2.stderr)
    return [{"seed": f"pair-relative-{k}", "step": 0, "names": names, "fam": fam, "A": arr(a0), "B": arr(b0), "E": [0] * len(names), "tr": False, "stg": False,
             "last": [0] * len(names), "A2": arr(a1), "B2": arr(b1), "altA2": arr(a1), "altB2": arr(b1), "E2": arr(a1) if completed else [0] * len(names),
             "tr2": completed, "exit": p2.returncode, "completed": completed, "nplan": -1, "stderr": f"spelled={spelled!r} exit={p2.returncode} " + p2.stderr.decode("utf8", "replace")[-120:]}]


def pair_symlink(job):
    """C07 'archive of another pair', reached through a symbolic link: `bisync <link> mirror` where <link> points at one
    directory for the first run and at ANOTHER directory for the second (a re-mounted stick, a rotated 'current' link).
    The pair is the pair of directories, not of spellings: the second run has no base."""
    k, _ = job
    d = os.path.join(CFG["dir"], f"lnk{k}")
    shutil.rmtree(d, ignore_errors=True)
    s1, s2, M, home = (os.path.join(d, x) for x in ("stick1", "stick2", "mirror", "home"))
    for x in (s1, s2, M, home):
        os.makedirs(x)
    for side in (s1, M):
        open(os.path.join(side, "f"), "wb").write(CONTENT[1])
        open(os.path.join(side, "g"), "wb").write(CONTENT[2])
    open(os.path.join(s2, "f"), "wb").write(CONTENT[3 if k % 2 else 1])       # the other stick: no g, f differs for odd k
    link = os.path.join(d, "usb") if k < 2 else os.path.join(d, "mnt", "usb")
    os.makedirs(os.path.dirname(link), exist_ok=True)
    os.symlink(s1, link)
    args = [link, M] if k % 2 == 0 else [M, link]
    subprocess.run([CFG["copia"], "bisync"] + args, env=_env(home), stdout=subprocess.PIPE, stderr=subprocess.PIPE, timeout=60)
    os.unlink(link)
    os.symlink(s2, link)
    a0, b0 = tree(s2), tree(M)
    p2 = subprocess.run([CFG["copia"], "bisync"] + args, env=_env(home), stdout=subprocess.PIPE, stderr=subprocess.PIPE, timeout=60)
    a1, b1 = tree(s2), tree(M)
    names = sorted(set(a0) | set(b0) | set(a1) | set(b1))
    fam = [[j + 1 for j, m2 in enumerate(names) if m2 == n or m2.startswith(n + ".conflict-")] for n in names]
    arr = lambda t: [t.get(n, 0) for n in names]
    completed = p2.returncode == 0 or (p2.returncode == 1 and b"had conflicts" in p2.stderr)
    return [{"seed": f"pair-symlink-{k}", "step": 0, "names": names, "fam": fam, "A": arr(a0), "B": arr(b0), "E": [0] * len(names), "tr": False, "stg": False,
             "last": [0] * len(names), "A2": arr(a1), "B2": arr(b1), "altA2": arr(a1), "altB2": arr(b1), "E2": arr(a1) if completed else [0] * len(names),
             "tr2": completed, "exit": p2.returncode, "completed": completed, "nplan": -1, "stderr": f"exit={p2.returncode} banner={b'SAFE no-base' in p2.stderr}"}]


def tie_order(job):
    """C06 'swapping which directory is named first does not change which bytes end up at which path', at its hardest:
    the two versions have the SAME BLAKE3 and differ in entry type only - a regular file holding the text T on one side,
    a symbolic link with target T on the other.  Version 1 = the file, version 2 = the link.  The same start state is
    run once as (X, Y) and once, in a second sandbox, as (Y, X)."""
    k, _ = job
    with_base, file_on_x = bool(k & 1), bool(k & 2)
    d = os.path.join(CFG["dir"], f"tie{k}")
    shutil.rmtree(d, ignore_errors=True)
    target = CFG["link_target"]

    def kind(p):
        if os.path.islink(p):
            return 2 if os.readlink(p) == target else -1
        return {target.encode(): 1, CONTENT[1]: 3}.get(open(p, "rb").read(), -1)

    def tree2(root):
        return {os.path.relpath(os.path.join(dp, f), root): kind(os.path.join(dp, f)) for dp, dn, fn in os.walk(root) for f in fn}
    res = []
    for order in ("XY", "YX"):
        sb = os.path.join(d, order)
        X, Y, home = os.path.join(sb, "X"), os.path.join(sb, "Y"), os.path.join(sb, "home")
        for x in (X, Y, home):
            os.makedirs(x)
        args = [X, Y] if order == "XY" else [Y, X]
        if with_base:
            for side in (X, Y):
                open(os.path.join(side, "f"), "wb").write(CONTENT[1])
            subprocess.run([CFG["copia"], "bisync"] + args, env=_env(home), stdout=subprocess.PIPE, stderr=subprocess.PIPE, timeout=60)
            for side in (X, Y):
                os.unlink(os.path.join(side, "f"))
        fs, ls = (X, Y) if file_on_x else (Y, X)
        open(os.path.join(fs, "f"), "wb").write(target.encode())
        os.symlink(target, os.path.join(ls, "f"))
        x0, y0 = tree2(X), tree2(Y)
        p = subprocess.run([CFG["copia"], "bisync"] + args, env=_env(home), stdout=subprocess.PIPE, stderr=subprocess.PIPE, timeout=60)
        res.append((x0, y0, tree2(X), tree2(Y), p))
    (x0, y0, x1, y1, p), (_, _, x1s, y1s, ps) = res
    names = sorted(set(x0) | set(y0) | set(x1) | set(y1) | set(x1s) | set(y1s))
    fam = [[j + 1 for j, m2 in enumerate(names) if m2 == n or m2.startswith(n + ".conflict-")] for n in names]
    arr = lambda t: [t.get(n, 0) for n in names]
    completed = p.returncode == 0 or (p.returncode == 1 and b"had conflicts" in p.stderr)
    return [{"seed": f"hash-tie-order-{k}", "step": 0, "names": names, "fam": fam, "A": arr(x0), "B": arr(y0), "E": [0] * len(names), "tr": False, "stg": False,
             "last": [0] * len(names), "A2": arr(x1), "B2": arr(y1), "altA2": arr(x1s), "altB2": arr(y1s), "E2": arr(x1) if completed else [0] * len(names),
             "tr2": completed, "exit": p.returncode, "completed": completed, "nplan": -1,
             "stderr": f"with_base={with_base} file_on_x={file_on_x} exits={p.returncode},{ps.returncode}"}]


# two texts whose BLAKE3 digests share their first 48 bits (0d46cbb782fd eb.. > 0d46cbb782fd 89..): the conflict-copy's
# 12-hex name cannot tell them apart, the winner rule (greater FULL digest at the path) still must
TIE_HI, TIE_LO = b"draft 23336915\n", b"draft 30070938\n"


def shortid_tie(job):
    """a divergent edit whose two versions have the same short id, in both orders of naming the roots, with and without a base:
    the version with the greater digest (version 2) ends at the path, the other (version 1) in the conflict-copy"""
    k, _ = job
    with_base, hi_on_x = bool(k & 1), bool(k & 2)
    d = os.path.join(CFG["dir"], f"sid{k}")
    shutil.rmtree(d, ignore_errors=True)

    def kind(p):
        return {TIE_HI: 2, TIE_LO: 1, CONTENT[1]: 3}.get(open(p, "rb").read(), -1)

    def tree2(root):
        return {os.path.relpath(os.path.join(dp, f), root): kind(os.path.join(dp, f)) for dp, dn, fn in os.walk(root) for f in fn}
    res = []
    for order in ("XY", "YX"):
        sb = os.path.join(d, order)
        X, Y, home = os.path.join(sb, "X"), os.path.join(sb, "Y"), os.path.join(sb, "home")
        for x in (X, Y, home):
            os.makedirs(x)
        args = [X, Y] if order == "XY" else [Y, X]
        if with_base:
            for side in (X, Y):
                open(os.path.join(side, "f"), "wb").write(CONTENT[1])
            subprocess.run([CFG["copia"], "bisync"] + args, env=_env(home), stdout=subprocess.PIPE, stderr=subprocess.PIPE, timeout=60)
        hs, ls = (X, Y) if hi_on_x else (Y, X)
        open(os.path.join(hs, "f"), "wb").write(TIE_HI)
        open(os.path.join(ls, "f"), "wb").write(TIE_LO)
        x0, y0 = tree2(X), tree2(Y)
        p = subprocess.run([CFG["copia"], "bisync"] + args, env=_env(home), stdout=subprocess.PIPE, stderr=subprocess.PIPE, timeout=60)
        res.append((x0, y0, tree2(X), tree2(Y), p))
    (x0, y0, x1, y1, p), (_, _, x1s, y1s, ps) = res
    names = sorted(set(x0) | set(y0) | set(x1) | set(y1) | set(x1s) | set(y1s))
    fam = [[j + 1 for j, m2 in enumerate(names) if m2 == n or m2.startswith(n + ".conflict-")] for n in names]
    arr = lambda t: [t.get(n, 0) for n in names]
    completed = p.returncode == 0 or (p.returncode == 1 and b"had conflicts" in p.stderr)
    return [{"seed": f"shortid-tie-{k}", "step": 0, "names": names, "fam": fam, "A": arr(x0), "B": arr(y0), "E": [0] * len(names), "tr": False, "stg": False,
             "last": [0] * len(names), "A2": arr(x1), "B2": arr(y1), "altA2": arr(x1s), "altB2": arr(y1s), "E2": arr(x1) if completed else [0] * len(names),
             "tr2": completed, "exit": p.returncode, "completed": completed, "nplan": -1, "want_at": [[names.index("f") + 1, 2]],
             "stderr": f"with_base={with_base} hi_on_x={hi_on_x} exits={p.returncode},{ps.returncode}"}]


def _decodable(b):
    try:
        b.decode("utf8")
        return True
    except UnicodeDecodeError:
        return False


def _tree_b(root):
    out = {}
    for dp, dn, fn in os.walk(root):
        for f in fn:
            p = os.path.join(dp, f)
            out[os.fsdecode(os.path.relpath(p, root))] = BY_BYTES.get(open(p, "rb").read(), -1)
    return out


def run_all(copia, root, jobs, nproc=12, pairs=False, link_target=None):
    with Pool(nproc, initializer=_init, initargs=(copia, root, link_target)) as pool:
        out = []
        for r in pool.imap_unordered(run_history, jobs):
            out.extend(r)
        if pairs:
            for r in pool.imap_unordered(pair_identity, [(k, None) for k in range(len(PAIR_NAMES))]):
                out.extend(r)
            for r in pool.imap_unordered(pair_concat, [(k, None) for k in range(len(PAIR_SEPS))]):
                out.extend(r)
            for r in pool.imap_unordered(pair_relative, [(k, None) for k in range(4)]):
                out.extend(r)
            for r in pool.imap_unordered(pair_symlink, [(k, None) for k in range(4)]):
                out.extend(r)
            if link_target:
                for r in pool.imap_unordered(tie_order, [(k, None) for k in range(4)]):
                    out.extend(r)
            for r in pool.imap_unordered(shortid_tie, [(k, None) for k in range(4)]):
                out.extend(r)
    return out
