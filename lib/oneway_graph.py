"""Binding G for the one-way mirror `copia sync -r`: materialise (source, destination) trees with real names, bytes and
mtimes, run the real command (local / push / pull through the ssh stand-in), project the result; then an immediate second
run (C14).  One JSON record per edge for OneWayTrace.tla."""
import json
import os
import random
import re
import shutil
import subprocess
from multiprocessing import Pool

HOST = "hh"
STG = ".copia-tmp"
SEC_POOL = [-86400, -5, 0, 1, 1_700_000_000, 2**31 - 1, 2**31, 2**32 + 1, 2**33, 1_600_000_000, 946684800]
NS = {0: 0, 1: 999_999_999}
_W = {}


def content_bytes(c, salt=b""):
    if c == 1:
        return b"alpha-content-1\n"
    if c == 2:
        return b"bravo-content-2\n"          # same length as content 1, different bytes
    if c == 3:
        return b"a third version, longer than the others\n"
    if c == 4:
        return b""
    if c == 5:
        return (b"0123456789abcdef" * 4096) * 10 + b"tail"     # 640 KiB: several transfer chunks
    if c == 6:
        return (b"mid-size file: more than one pipe write, less than one transfer chunk\n" * 4000)[:200_000]     # 64 KiB < size < 256 KiB
    if c == 7:
        return (b"fedcba9876543210" * 4096) * 10 + b"liat"     # same length as content 5, different bytes (crash scenarios only)
    raise ValueError(c)


BY_BYTES = {content_bytes(c): c for c in (1, 2, 3, 4, 5, 6, 7)}


def _init(copia, root, shimdir, seed):
    import multiprocessing
    ident = multiprocessing.current_process()._identity
    wid = ident[0] if ident else 0
    d = os.path.join(root, f"w{wid}")
    shutil.rmtree(d, ignore_errors=True)
    os.makedirs(d)
    _W.update(copia=copia, dir=d, src=os.path.join(d, "src"), dst=os.path.join(d, "dst"), home=os.path.join(d, "home"),
              shimdir=shimdir, rng=random.Random(seed * 7 + wid))
    os.makedirs(_W["home"])


def _env(extra=None):
    e = dict(os.environ)
    e.update({"HOME": _W["home"], "RUST_LOG": "off", "LC_ALL": "C.UTF-8", "TZ": "UTC",
              "PATH": _W["shimdir"] + ":" + os.environ.get("PATH", "")})
    if extra:
        e.update(extra)
    return e


def _write_tree(root, names, tree, secs, links=()):
    """links: indices whose entry is a SYMBOLIC LINK to a regular file kept outside the tree (size and mtime are the
    target's - the quick check and the copy both follow the link)"""
    shutil.rmtree(root, ignore_errors=True)
    os.makedirs(root)
    side = root + ".linktargets"
    shutil.rmtree(side, ignore_errors=True)
    for i, (name, m) in enumerate(zip(names, tree)):
        if m:
            p = os.path.join(root, name)
            os.makedirs(os.path.dirname(p), exist_ok=True)
            real = p
            if i in links:
                os.makedirs(side, exist_ok=True)
                real = os.path.join(side, f"t{i}")
                os.symlink(real, p)
            with open(real, "wb") as f:
                f.write(content_bytes(m[0]))
            ns = secs[m[1] - 1] * 10**9 + NS[m[2]]
            os.utime(real, ns=(ns, ns))


def _extra_dirs(root, dirs):
    for dname, inner in dirs:
        os.makedirs(os.path.join(root, dname), exist_ok=True)
        if inner:
            with open(os.path.join(root, dname, inner), "wb") as f:
                f.write(b"inner\n")


def _project(root, names, secs):
    idx = {n: i for i, n in enumerate(names)}
    arr = [[] for _ in names]
    staging, alien = 0, []
    for dp, dn, fn in os.walk(root):
        for f in fn:
            p = os.path.join(dp, f)
            rel = os.path.relpath(p, root)
            if rel.endswith(STG) and rel not in idx:
                staging += 1                # (a name of the case's own universe that ends in the suffix is a user's file)
                continue
            if os.path.islink(p) and not os.path.exists(p):
                continue                    # a dangling link / link loop: not a file, no run lists, sends or removes it
            if rel not in idx:
                alien.append(rel)
                continue
            st = os.stat(p)
            data = open(p, "rb").read()
            c = BY_BYTES.get(data, -1)
            sec, ns = divmod(st.st_mtime_ns, 10**9)
            s = secs.index(sec) + 1 if sec in secs else 99
            fcls = 0 if ns == 0 else (1 if ns == NS[1] else 9)
            arr[idx[rel]] = [c, s, fcls]
    return arr, staging, alien


def _snapshot(roots):
    out = []
    for root in roots:
        # directories count too (a dry run must not even create the destination root): existence and mtime
        out.append((root, "dir", os.lstat(root).st_mtime_ns) if os.path.isdir(root) else (root, "missing", 0))
        for dp, dn, fn in os.walk(root):
            for dname in dn:
                dpth = os.path.join(dp, dname)
                out.append((dpth, "dir", os.lstat(dpth).st_mtime_ns, b""))
            for f in sorted(fn):
                p = os.path.join(dp, f)
                st = os.lstat(p)
                # the inode too: a file that is sent again although nothing changed comes back with the same bytes and the
                # same stamped mtime, but (staged and renamed) as a new inode
                out.append((p, st.st_mtime_ns, st.st_ino, os.readlink(p).encode() if os.path.islink(p) else open(p, "rb").read()))
    return sorted(out)


_PLAN = re.compile(rb"Plan: (\d+) to transfer, (\d+) unchanged \(skipped\), (\d+) to delete")
_DONE = re.compile(rb"Complete: (\d+) sent, (\d+) skipped, (\d+) deleted, (\d+) failed")


def _cmd(case, dry):
    src, dst = _W["src"], _W["dst"]
    # a root that is itself a symbolic link to the directory (`current -> releases/7`), named without a trailing slash
    if case.get("root_link") == "dst":
        dst = _W["dst"] + ".lnk"
    elif case.get("root_link") == "src":
        src = _W["src"] + ".lnk"
    if case["dir"] == "push":
        dst = f"{HOST}:{dst}"
    elif case["dir"] == "pull":
        src = f"{HOST}:{src}"
    cmd = [_W["copia"], "sync", "-r", src, dst, "--jobs", str(case.get("jobs", 4))]
    if case["del"]:
        cmd.append("--delete")
    for p in case["pats"]:
        cmd += ["--exclude", p]
    if dry:
        cmd.append("--dry-run")
    if case.get("verbose"):
        cmd.append("--verbose")
    return cmd


def run_case(case):
    names = case["names"]
    secs = case["secs"]
    _write_tree(_W["src"], names, case["src"], secs, links=case.get("links", ()))
    _write_tree(_W["dst"], names, case["dst"], secs)
    _extra_dirs(_W["dst"], case.get("dst_dirs", []))
    for i, j in case.get("dst_links", ()):
        # two destination names that are ONE inode (a de-duplicated tree, `cp -al`): delivering one of them must not touch the other
        pi, pj = os.path.join(_W["dst"], names[i]), os.path.join(_W["dst"], names[j])
        os.unlink(pj)
        os.link(pi, pj)
    if case.get("dst_missing"):
        shutil.rmtree(_W["dst"])            # the destination root does not exist yet
    for i in case.get("leftover", []):
        # a staging file an interrupted earlier run left next to a file that is planned again: longer than the source now is
        p = os.path.join(_W["dst"], names[i] + STG)
        os.makedirs(os.path.dirname(p), exist_ok=True)
        with open(p, "wb") as f:
            f.write(content_bytes(3) * 3 + b"stale tail of an interrupted transfer\n")
    for side in case.get("dangling", ()):
        # entries that cannot be stat'ed through (a link whose target is gone, a link to itself): they are no files, and their
        # presence must not change what the run makes of everything else
        root = _W[side]
        if os.path.isdir(root):
            os.symlink("pruned/target-that-is-gone", os.path.join(root, "zz-dangling"))
            os.symlink("zz-loop", os.path.join(root, "zz-loop"))
    for side in ("src", "dst"):
        lnk = _W[side] + ".lnk"
        if os.path.lexists(lnk):
            os.unlink(lnk)
        if case.get("root_link") == side:
            os.symlink(_W[side], lnk)
    env = _env(case.get("env"))
    dry = case["dry"]
    before = _snapshot([_W["src"], _W["dst"]]) if dry else None
    p = subprocess.run(_cmd(case, dry), env=env, stdout=subprocess.PIPE, stderr=subprocess.PIPE, timeout=120)
    dst2, staging, alien = _project(_W["dst"], names, secs)
    src2, sstaging, salien = _project(_W["src"], names, secs)
    m = _PLAN.search(p.stderr)
    dn = _DONE.search(p.stdout)
    rec = {"id": case["id"], "names": [[list(comp) for comp in n.split("/")] for n in names], "rawnames": names,
           "src": case["src"], "dst": case["dst"], "pats": [list(x) for x in case["pats"]], "rawpats": case["pats"],
           "del": case["del"], "dry": dry, "dir": case["dir"], "jobs": case.get("jobs", 4),
           "src2": src2, "dst2": dst2, "staging": staging + sstaging, "alien": alien + salien,
           "exit": p.returncode, "reported": (b"FAILED" in p.stderr or b"Error" in p.stderr or b"rror" in p.stderr),
           "plan": [int(x) for x in m.groups()] if m else [-1, -1, -1],
           "sent": int(dn.group(1)) if dn else 0, "failed": int(dn.group(4)) if dn else 0, "sent_known": bool(dn) or p.returncode != 0,
           "second": {"ran": False, "known": False, "transfer": -1, "delete": -1, "unchanged": True, "exit": 0},
           "printed_send": [], "printed_delete": [], "induced": case.get("induced", ""), "unsendable": case.get("induced") == "unsendable",
           "stderr": p.stderr.decode("utf8", "replace")[-300:] if p.returncode else ""}
    if dry:
        after = _snapshot([_W["src"], _W["dst"]])
        if before != after:
            rec["staging"] += 1000          # something changed on disk during a dry run
        idx = {n: i + 1 for i, n in enumerate(names)}
        text = p.stdout.decode("utf8", "replace")
        # names may contain newlines: match printed lines against the known names
        for n, i in idx.items():
            shown = os.fsencode(n).decode("utf8", "replace")          # a name that is not UTF-8 is printed with U+FFFD
            if ("send   " + shown + "\n") in text:
                rec["printed_send"].append(i)
            if ("delete " + shown + "\n") in text:
                rec["printed_delete"].append(i)
        rec["printed_send"].sort()
        rec["printed_delete"].sort()
        rec["printed_lines"] = sum(1 for x in text.split("\n") if x.startswith("send   ") or x.startswith("delete "))
    elif p.returncode == 0:
        snap1 = _snapshot([_W["src"], _W["dst"]])
        q = subprocess.run(_cmd(case, False), env=env, stdout=subprocess.PIPE, stderr=subprocess.PIPE, timeout=120)
        snap2 = _snapshot([_W["src"], _W["dst"]])
        m2 = _PLAN.search(q.stderr)
        if m2:
            t2, _, d2 = (int(x) for x in m2.groups())
        elif b"No files found" in q.stderr:
            t2, d2 = 0, 0
        else:
            t2, d2 = -1, -1
        # the printed counters are used when they can be read; "unchanged" (bytes, mtimes, inodes) does not depend on wording
        rec["second"] = {"ran": True, "known": t2 >= 0, "transfer": t2, "delete": d2, "unchanged": snap1 == snap2, "exit": q.returncode}
    return rec


def run_cases(copia, shimdir, root, cases, seed, nproc=16):
    with Pool(nproc, initializer=_init, initargs=(copia, root, shimdir, seed)) as pool:
        return list(pool.imap_unordered(run_case, cases, chunksize=4))


NAME_POOL = ["plain", "with space", "quote'single", 'dq"uote', "back\\slash", "dollar$HOME", "glob*star", "q?mark", "[bracket]",
             "new\nline", "-leading-dash", "ünïcödé", "ナメ", ".hidden", "tab\there", "semi;colon", "amp&ersand",
             "pipe|x", "`backtick`", "$(subshell)", "trailing.", " leadingspace", "a.b", "x~y", "per%cent", "#hash", "e=mc2", "{brace}",
             "two\n\nlines", "\\n-literal", "'", "\"", "*", "?", "raw\udcff.bin"]      # the last one is the byte string b'raw\xff.bin' (not UTF-8)
DIR_POOL = ["", "", "d", "deep/er/nest", "dir with space", "d'q", "new\nline dir", "-dashdir", "g*lob"]


def random_cases(n, seed, dirs=("local", "push", "pull")):
    rng = random.Random(seed)
    out = []
    for k in range(n):
        nf = rng.randint(1, 6)
        names = set()
        while len(names) < nf:
            d = rng.choice(DIR_POOL)
            f = rng.choice(NAME_POOL)
            names.add((d + "/" + f) if d else f)
        names = sorted(names)
        # a file must not also be a directory prefix of another name
        names = [x for x in names if not any(y != x and y.startswith(x + "/") for y in names)]
        secs = rng.sample(SEC_POOL, 3)
        # file / directory clash: one tree has a file where the other needs a directory (each tree stays consistent)
        clash = None
        if rng.random() < 0.12:
            base = rng.choice(names)
            sub = base + "/" + rng.choice(["inner", "b", "q?mark", "with space"])
            names = sorted(set(names) | {sub})
            clash = (names.index(base), names.index(sub))

        def meta():
            if rng.random() < 0.3:
                return []
            return [rng.choice([1, 1, 2, 3, 4, 5 if rng.random() < 0.15 else 3]), rng.randint(1, 3), rng.randint(0, 1)]
        src = [meta() for _ in names]
        dst = []
        for s in src:
            r = rng.random()
            if r < 0.3:
                dst.append([])
            elif r < 0.5 and s:
                dst.append(list(s))                                   # same size + mtime, same bytes
            elif r < 0.65 and s and s[0] in (1, 2):
                dst.append([3 - s[0], s[1], rng.randint(0, 1)])       # same size + whole-second mtime, different bytes
            else:
                dst.append(meta())
        if clash:
            ib, isub = clash
            if rng.random() < 0.7:
                hi, lo = (src, dst) if rng.random() < 0.5 else (dst, src)
                hi[ib], hi[isub] = (hi[ib] or [1, 1, 0]), []
                lo[ib], lo[isub] = [], (lo[isub] or [2, 2, 0])
            for t in (src, dst):
                if t[ib] and t[isub]:
                    t[rng.choice([ib, isub])] = []
        pats = []
        for _ in range(rng.choice([0, 0, 1, 2])):
            r = rng.random()
            if r < 0.4:
                comp = rng.choice(names).split("/")
                pats.append(rng.choice(comp) + ("/" if rng.random() < 0.2 else ""))
            elif r < 0.6:
                pats.append(rng.choice(names))
            else:
                pats.append(rng.choice(["*", "?", "*.b", "d/*", "*e*", "??", "*'*", "new*", "-*", "*\n*", "*$*", "deep/*/nest/*"]))
        # clap would read a pattern starting with '-' as a flag only in the separated form; we always pass `--exclude PAT`
        pats = [p for p in pats if not p.startswith("-")]
        # a directory that only the destination has, holding a stale file next to an excluded one (and one level deeper)
        if rng.random() < 0.15:
            d = rng.choice([x for x in DIR_POOL if x and "/" not in x]) + rng.choice(["", "-old"])
            extra = [d + "/" + f for f in rng.sample(["a.b", "plain", "keep me", "sub/x.b", "sub/y"], rng.randint(2, 4))]
            extra = [x for x in extra if x not in names and not any(n == d or n.startswith(x + "/") or x.startswith(n + "/") for n in names)]
            if extra and not any(n.startswith(d + "/") for n in names):
                for x in extra:
                    names.append(x)
                    src.append([])
                    dst.append([rng.choice([1, 2, 3, 4]), rng.randint(1, 3), rng.randint(0, 1)])
                victim = rng.choice(extra)
                pats = pats[:1] + [rng.choice([victim, victim.split("/")[-1], "*.b", "keep*", "sub", d + "/*"])]
                pats = [p for p in pats if not p.startswith("-")]
                if not any(m for m in src):
                    src[0] = [1, 1, 0]
                order = sorted(range(len(names)), key=lambda i: names[i])
                if clash:
                    clash = (order.index(clash[0]), order.index(clash[1]))
                names, src, dst = [names[i] for i in order], [src[i] for i in order], [dst[i] for i in order]
                stale_dir = True
            else:
                stale_dir = False
        else:
            stale_dir = False
        case = {"id": f"r{seed}-{k}", "names": names, "secs": secs, "src": src, "dst": dst, "pats": pats, "del": rng.random() < (0.85 if stale_dir else 0.5),
                "dry": rng.random() < 0.2, "dir": rng.choice(dirs), "jobs": rng.choice([1, 2, 8]), "verbose": rng.random() < 0.3}
        # the name that is not UTF-8: never as a pattern (clap refuses such an argument), and not on the REMOTE destination
        # (its listing is text; C19 promises the round trip for valid UTF-8 only)
        case["pats"] = [p for p in case["pats"] if "\udcff" not in p]
        if case["dir"] == "push":
            case["dst"] = [[] if "\udcff" in n else m for n, m in zip(names, dst)]
        if rng.random() < 0.08:
            case["dst"] = [[] for _ in names]
            case["dst_missing"] = True
        elif not case["pats"] and not clash and not case["del"] and not case["dry"] and rng.random() < 0.3:
            # (with --delete the leftover is itself a destination file the source lacks, and is planned for removal)
            planned = [i for i, (m, t) in enumerate(zip(src, case["dst"])) if m and m[0] in (1, 2, 4) and (not t or len(content_bytes(t[0])) != len(content_bytes(m[0])) or t[1] != m[1])
                       and "\udcff" not in names[i]]
            if planned:
                case["leftover"] = [rng.choice(planned)]
        if case["dir"] != "local" and any("\udcff" in n and m for n, m in zip(names, src)):
            # a remote command cannot name it: the run has to report that file as failed (and deliver nothing under another name)
            case["induced"] = "unsendable"
        elif clash:
            case["induced"] = "clash"
        elif case["dir"] != "pull" and rng.random() < 0.12:
            # a source entry that is a symlink to a regular file (the remote listing `find -type f` does not show links,
            # so not for pull)
            present = [i for i, m in enumerate(src) if m]
            if present:
                case["links"] = [rng.choice(present)]
        rng2 = random.Random(seed * 7919 + k)       # its own stream: the cases drawn above stay what they were
        if rng2.random() < 0.12:
            case["dangling"] = rng2.choice([("dst",), ("dst",), ("src",), ("src", "dst")])
        same = [(i, j) for i in range(len(names)) for j in range(i + 1, len(names)) if case["dst"][i] and case["dst"][i] == case["dst"][j]]
        if same and not case.get("dst_missing") and rng2.random() < 0.5:
            case["dst_links"] = [rng2.choice(same)]
        out.append(case)
    return out
