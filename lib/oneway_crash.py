"""Binding S, kill mode, for C09: `copia sync -r` is killed immediately before its k-th file-system / pipe write call
(LD_PRELOAD shim; for push the orphaned remote shell is left to run to completion), for k = 1..N of every scenario."""
import json
import os
import shutil
import signal
import subprocess
import time
from multiprocessing import Pool

import oneway_graph as og

STG = ".copia-tmp"
CFG = {}


def _init(copia, shim, shimdir):
    CFG.update(copia=copia, shim=shim, shimdir=shimdir)


def _env(home, root, log=None, kill=None):
    e = dict(os.environ)
    e.update({"HOME": home, "RUST_LOG": "off", "LC_ALL": "C.UTF-8", "TZ": "UTC", "PATH": CFG["shimdir"] + ":" + os.environ.get("PATH", "")})
    if log or kill:
        e.update({"LD_PRELOAD": CFG["shim"], "COPIA_SHIM_ROOTS": root, "COPIA_SHIM_PIPES": "1", "COPIA_SHIM_KILL_COMM": "copia"})
    if log:
        e["COPIA_SHIM_LOG"] = log
    if kill:
        e["COPIA_SHIM_KILL"] = str(kill)
    return e


def _snap(d):
    out = {}
    for dp, dn, fn in os.walk(d):
        for f in fn:
            p = os.path.join(dp, f)
            out[os.path.relpath(p, d)] = (open(p, "rb").read(), os.stat(p).st_mtime_ns // 10**9)
    return out


def _restore(d, snap):
    shutil.rmtree(d, ignore_errors=True)
    os.makedirs(d)
    for rel, (data, sec) in snap.items():
        p = os.path.join(d, rel)
        os.makedirs(os.path.dirname(p), exist_ok=True)
        with open(p, "wb") as f:
            f.write(data)
        os.utime(p, (sec, sec))


def _run_group(cmd, env, timeout=60):
    """run in its own session; after it ends (or is killed) wait until every descendant has exited"""
    p = subprocess.Popen(cmd, env=env, stdout=subprocess.PIPE, stderr=subprocess.PIPE, start_new_session=True)
    try:
        out, err = p.communicate(timeout=timeout)
    except subprocess.TimeoutExpired:
        os.killpg(p.pid, signal.SIGKILL)
        out, err = p.communicate()
    t0 = time.time()
    while time.time() - t0 < 10:
        try:
            os.killpg(p.pid, 0)
        except ProcessLookupError:
            break
        time.sleep(0.005)
    return p.returncode, out, err, p.pid


def run_scenario(sc):
    d = os.path.join(sc["root"], f"s{sc['id']}")
    shutil.rmtree(d, ignore_errors=True)
    src, dst, home = os.path.join(d, "src"), os.path.join(d, "dst"), os.path.join(d, "home")
    for x in (src, dst, home):
        os.makedirs(x)
    log = os.path.join(d, "log")
    for f in sc["files"]:
        if f["new"]:
            p = os.path.join(src, f["name"])
            os.makedirs(os.path.dirname(p), exist_ok=True)
            open(p, "wb").write(og.content_bytes(f["new"]))
            os.utime(p, (1_600_000_000 + f["new"], 1_600_000_000 + f["new"]))
        if f["old"]:
            p = os.path.join(dst, f["name"])
            os.makedirs(os.path.dirname(p), exist_ok=True)
            open(p, "wb").write(og.content_bytes(f["old"]))
            t_old = (1_600_000_000 + f["new"]) if f["old"] == f["new"] else 1_500_000_000     # identical file: quick check must skip it
            os.utime(p, (t_old, t_old))
    S, D = src, dst
    if sc["dir"] == "push":
        D = f"hh:{dst}"
    elif sc["dir"] == "pull":
        S = f"hh:{src}"
    cmd = [CFG["copia"], "sync", "-r", S, D, "--jobs", str(sc["jobs"])] + (["--delete"] if sc["delete"] else [])
    pre = _snap(dst)
    src_pre = _snap(src)
    open(log, "w").close()
    rc, out, err, copia_pid = _run_group(cmd, _env(home, d, log=log))
    lines = [json.loads(x) for x in open(log, errors="surrogateescape") if x.strip()]
    mine = [x for x in lines if x["pid"] == copia_pid]
    n_mut = sum(1 for x in mine if x["mut"])
    fin = _snap(dst)
    names = [f["name"] for f in sc["files"]]

    def classify(snap):
        res = []
        for f in sc["files"]:
            cur = snap.get(f["name"])
            oldb = og.content_bytes(f["old"]) if f["old"] else None
            newb = og.content_bytes(f["new"]) if f["new"] else None
            if cur is None:
                cls = "absent"
            elif newb is not None and cur[0] == newb:
                cls = "new"
            elif oldb is not None and cur[0] == oldb:
                cls = "old"
            elif newb is not None and newb.startswith(cur[0]):
                cls = "partial"
            else:
                cls = "other"
            if f["old"] and f["new"] and f["old"] == f["new"] and cls == "new":
                cls = "old"
            res.append(cls)
        return res

    def calls_of(ls):
        out = []
        for x in ls:
            if not x["mut"] or x["pid"] != copia_pid:
                continue
            path = x["path"]
            rel = os.path.relpath(path, dst) if path.startswith(dst + "/") else None
            if rel is None:
                if x["call"] == "pipewrite":
                    out.append({"op": "PipeWrite", "path": 0})
                continue
            is_tmp = rel.endswith(STG)
            base = rel[:-len(STG)] if is_tmp else rel
            idx = names.index(base) + 1 if base in names else 0
            if x["call"] == "open" and is_tmp:
                out.append({"op": "CreateTmp", "path": idx})
            elif x["call"] in ("write", "copy_file_range", "sendfile") and is_tmp:
                out.append({"op": "Write", "path": idx})
            elif x["call"] == "rename" and is_tmp:
                out.append({"op": "Rename", "path": idx})
            elif x["call"] in ("utimens",) or (x["call"] == "open" and not is_tmp):
                out.append({"op": "SetMtime", "path": idx})
            elif x["call"] == "unlink":
                out.append({"op": "Unlink", "path": idx})
        return out

    def rec(k, rcode, snap, ls, rerun_exit, rerun_snap):
        cls = classify(snap)
        paths = []
        for f, c in zip(sc["files"], cls):
            oldcls = "old" if f["old"] else "absent"
            kind = "transfer" if f["new"] else ("delete" if sc["delete"] and f["old"] else "keep")
            planned = kind != "keep" and not (f["old"] and f["new"] and f["old"] == f["new"] and False)
            q = {"name": f["name"], "planned": planned, "kind": kind, "old": oldcls, "crash": c,
                 "staging": (f["name"] + STG) in snap}
            if kind == "delete":
                q["crash"] = "new" if c == "absent" else c       # for a delete, "new" = removed
            paths.append(q)
        want = fin2 if (sc.get("shrink") and k > 0) else fin
        eq = {k2: v for k2, v in rerun_snap.items() if not k2.endswith(STG)} == {k2: v for k2, v in want.items() if not k2.endswith(STG)}
        return {"sid": sc["id"], "scenario": sc["name"], "dir": sc["dir"], "jobs": sc["jobs"], "k": k, "n_mut": n_mut, "exit": rcode,
                "paths": paths, "calls": calls_of(ls), "rerun_exit": rerun_exit, "rerun_equal": eq and _snap(src) == (src_post if (sc.get("shrink") and k > 0) else src_pre)}

    # "shrink": between the killed run and the re-run the source file becomes SHORTER (new bytes, new mtime); the re-run must
    # then give what an uninterrupted run on the changed source gives - nothing of the leftover staging file in it
    fin2, src_post = None, None

    def shrink():
        for name, c in sc["shrink"]:
            pth = os.path.join(src, name)
            open(pth, "wb").write(og.content_bytes(c))
            os.utime(pth, (1_650_000_000 + c, 1_650_000_000 + c))
    if sc.get("shrink"):
        _restore(dst, pre)
        shrink()
        src_post = _snap(src)
        _run_group(cmd, _env(home, d))
        fin2 = _snap(dst)
        _restore(src, src_pre)
        _restore(dst, fin)
    recs = []
    # k = 0: uninterrupted; its "rerun" is the immediate second run
    rc2, _, _, _ = _run_group(cmd, _env(home, d))
    recs.append(rec(0, rc, fin, lines, rc2, _snap(dst)))
    ks = list(range(1, n_mut + 1))
    if sc.get("max_k") and len(ks) > sc["max_k"]:
        step = len(ks) / sc["max_k"]
        ks = sorted(set([ks[int(i * step)] for i in range(sc["max_k"])] + ks[:6] + ks[-6:]))
    for k in ks:
        _restore(dst, pre)
        open(log, "w").close()
        rck, _, _, copia_pid = _run_group(cmd, _env(home, d, log=log, kill=k))
        kl = [json.loads(x) for x in open(log, errors="surrogateescape") if x.strip()]
        snap = _snap(dst)
        if sc.get("shrink"):
            shrink()
        rr, _, rerr, _ = _run_group(cmd, _env(home, d))
        recs.append(rec(k, rck, snap, kl, rr, _snap(dst)))
        if sc.get("shrink"):
            _restore(src, src_pre)
    shutil.rmtree(d, ignore_errors=True)
    return recs


def scenarios(root, tier):
    S = []

    def add(name, direction, files, jobs=2, delete=False, max_k=None, shrink=None):
        S.append({"id": len(S), "name": name, "dir": direction, "files": files, "jobs": jobs, "delete": delete, "root": root, "max_k": max_k, "shrink": shrink})
    F = lambda name, new, old: {"name": name, "new": new, "old": old}
    for d in ("local", "pull", "push"):
        add(f"{d}: new small + overwrite multi-chunk + empty + untouched", d,
            [F("small", 1, 0), F("big", 5, 3), F("empty", 4, 1), F("keep", 0, 2)], jobs=1, max_k=40 if tier == "quick" else None)
        add(f"{d}: two multi-chunk files in flight, nested, --delete", d,
            [F("d/big1", 5, 1), F("d/big2", 5, 0), F("stale", 0, 2), F("same", 3, 3)], jobs=2, delete=True, max_k=40 if tier == "quick" else None)
        # a file between one pipe write (64 KiB) and one transfer chunk (256 KiB): "arrives whole or not at all" is not true of it
        add(f"{d}: mid-size file new and over an existing one", d, [F("mid", 6, 0), F("sub/mid2", 6, 3)], jobs=1, max_k=30 if tier == "quick" else None)
        # the file in flight replaces one of the SAME SIZE (the re-run's quick check has only the mtime to go by)
        add(f"{d}: multi-chunk and small file over same-size ones", d, [F("big", 5, 7), F("small", 1, 2)], jobs=1, max_k=30 if tier == "quick" else None)
        # the source file shrinks between the killed run and the re-run (640 KiB -> 200 000 bytes -> 16 bytes)
        add(f"{d}: source shrinks before the re-run", d, [F("big", 5, 3), F("sub/mid", 6, 0)], jobs=1, max_k=30 if tier == "quick" else None,
            shrink=[("big", 6), ("sub/mid", 1)])
        if d == "local":
            # two names that differ in one byte that is not UTF-8 (the remote directions refuse such names): their staging names
            # differ too, so two jobs can deliver them at once
            add("local: two multi-chunk files whose names differ in a non-UTF-8 byte", d,
                [F("raw\udcff.bin", 5, 0), F("raw\udcfe.bin", 7, 0), F("plain", 1, 0)], jobs=2, max_k=30 if tier == "quick" else None)
        if tier == "thorough":
            add(f"{d}: hostile names", d, [F("with space", 1, 2), F("q'uote", 3, 0), F("new\nline", 2, 1), F("sub dir/$x", 5, 0)], jobs=8)
            add(f"{d}: single empty file over existing", d, [F("e", 4, 3)], jobs=1)
    return S


def run_all(copia, shim, shimdir, root, tier, nproc=6):
    scs = scenarios(root, tier)
    with Pool(nproc, initializer=_init, initargs=(copia, shim, shimdir)) as pool:
        out = []
        for recs in pool.imap_unordered(run_scenario, scs):
            out.extend(recs)
    return scs, out
