import struct
def enc(x):
    if x is None: return b'\xf6'
    if x is True: return b'\xf5'
    if x is False: return b'\xf4'
    if isinstance(x,int):
        return _hdr(0,x) if x>=0 else _hdr(1,-1-x)
    if isinstance(x,bytes): return _hdr(2,len(x))+x
    if isinstance(x,str):
        b=x.encode(); return _hdr(3,len(b))+b
    if isinstance(x,(list,tuple)): return _hdr(4,len(x))+b''.join(enc(i) for i in x)
    if isinstance(x,dict): return _hdr(5,len(x))+b''.join(enc(k)+enc(v) for k,v in x.items())
    raise TypeError(x)
def _hdr(m,n):
    if n<24: return bytes([m<<5|n])
    if n<256: return bytes([m<<5|24,n])
    if n<65536: return bytes([m<<5|25])+struct.pack('>H',n)
    if n<2**32: return bytes([m<<5|26])+struct.pack('>I',n)
    return bytes([m<<5|27])+struct.pack('>Q',n)
def dec(b,i=0):
    ib=b[i]; m=ib>>5; a=ib&31; i+=1
    if m==7:
        return ({20:False,21:True,22:None}[a], i)
    if a<24: n=a
    elif a==24: n=b[i]; i+=1
    elif a==25: n=struct.unpack('>H',b[i:i+2])[0]; i+=2
    elif a==26: n=struct.unpack('>I',b[i:i+4])[0]; i+=4
    else: n=struct.unpack('>Q',b[i:i+8])[0]; i+=8
    if m==0: return n,i
    if m==1: return -1-n,i
    if m==2: return b[i:i+n],i+n
    if m==3: return b[i:i+n].decode(),i+n
    if m==4:
        out=[]
        for _ in range(n):
            v,i=dec(b,i); out.append(v)
        return out,i
    if m==5:
        out={}
        for _ in range(n):
            k,i=dec(b,i); v,i=dec(b,i); out[k]=v
        return out,i
def frame(x):
    p=enc(x); return struct.pack('>I',len(p))+p
