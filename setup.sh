#!/bin/sh
# Build everything the checks need, offline, from files on disk. Safe to re-run.
set -e
cd "$(dirname "$0")"
export CARGO_NET_OFFLINE=true
mkdir -p .cache evidence replay
python3 - <<'PY'
import sys
sys.path.insert(0, "lib")
import vlib
vlib.build_repo()
import glob, os
bins = [os.path.basename(p)[:-3] for p in glob.glob("harness/src/bin/*.rs")]
vlib.build_harness(bins)
PY
if [ -f shim/Makefile ]; then make -C shim; fi
echo "setup ok"
