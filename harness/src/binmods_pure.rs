// The CLI's pure modules, compiled into the harness unchanged via #[path] (DESIGN section 8).
// They are siblings under one parent so their `super::` paths resolve.
#[path = "/repo/src/bin/copia/plan.rs"]
pub mod plan;
#[path = "/repo/src/bin/copia/reconcile.rs"]
pub mod reconcile;
#[path = "/repo/src/bin/copia/meta.rs"]
pub mod meta;
#[path = "/repo/src/bin/copia/transfer.rs"]
pub mod transfer;
