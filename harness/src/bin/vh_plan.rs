//! Binding E for the CLI's pure functions: reconcile (C18), planner / glob / listing (C19, C15).
#![allow(dead_code, unused_imports, clippy::all)]

#[path = "../binmods_pure.rs"]
mod cb;

use cb::reconcile::{reconcile, reconcile_path, Action, ConflictKind, FileType, Fingerprint, FpMap};
use rand::{Rng, SeedableRng};
use serde_json::{json, Value};
use std::path::PathBuf;
use vh::util::{read_ndjson, NdjsonWriter};

fn act_name(a: Action) -> &'static str {
    match a {
        Action::Noop => "Noop",
        Action::PropagateAtoB => "PropagateAtoB",
        Action::PropagateBtoA => "PropagateBtoA",
        Action::ConvergeIdentical => "ConvergeIdentical",
        Action::DeleteA => "DeleteA",
        Action::DeleteB => "DeleteB",
        Action::Conflict(ConflictKind::BothChanged) => "ConflictBothChanged",
        Action::Conflict(ConflictKind::DeleteVsModify) => "ConflictDeleteVsModify",
    }
}

/// A concretisation maps digest ids 1..k to 32-byte digests.
fn concretisations(rng: &mut rand::rngs::StdRng) -> Vec<Vec<[u8; 32]>> {
    let mut out = Vec::new();
    // random digests
    for _ in 0..2 {
        out.push((0..4).map(|_| rng.gen::<[u8; 32]>()).collect());
    }
    // digests differing only in the last byte / only in the first byte / only in one middle bit
    for pos in [31usize, 0, 17] {
        let base: [u8; 32] = rng.gen();
        let v: Vec<[u8; 32]> = (0..4u8)
            .map(|i| {
                let mut d = base;
                d[pos] ^= 1 << i;
                d
            })
            .collect();
        out.push(v);
    }
    // all-zero vs all-ones vs near
    out.push(vec![[0u8; 32], [0xffu8; 32], { let mut d = [0u8; 32]; d[31] = 1; d }, { let mut d = [0xffu8; 32]; d[0] = 0xfe; d }]);
    out
}

fn fp_of(v: &Value, conc: &[[u8; 32]]) -> Option<Fingerprint> {
    let d = v["d"].as_u64().unwrap() as usize;
    if d == 0 {
        return None;
    }
    let t = match v["t"].as_str().unwrap() {
        "File" => FileType::File,
        "Symlink" => FileType::Symlink,
        x => panic!("type {x}"),
    };
    Some(Fingerprint { blake3: conc[d - 1], ftype: t })
}

// name sets whose PathBuf (component-wise) order equals the numeric order of the spec's path ids; in all but the first
// the BYTE order of the rendered strings is a different one ('-', '.', ' ', '+' sort before '/')
// (the fifth set: names that LOOK like the tool's own staging files, conflict-copies and dot-files - to the planner they are paths like any other;
//  the sixth: each path an ANCESTOR of the next - a file on one side where the other side or the base has a directory; the decision
//  table is per path of the union, whatever the paths are to one another)
const NAME_SETS: [[&str; 4]; 6] = [["a/x", "a/y", "b", "c"], ["d/x", "d-old/y", "d.txt", "e"], ["src/main", "src-old", "src.bak", "t"], ["a/z", "a b/c", "a+b", "b"],
                                   ["draft.copia-tmp", "sub/report.copia-tmp", "f.conflict-0123456789ab", ".hidden"],
                                   ["d", "d/x", "d/x/y", "e"]];

fn path_name_in(set: usize, i: usize) -> PathBuf {
    PathBuf::from(NAME_SETS[set % NAME_SETS.len()][i])
}

fn cmd_reconcile_cases(args: &[String]) {
    let cases = read_ndjson(&args[0]);
    let mut out = NdjsonWriter::create(&args[1]);
    let seed: u64 = args[2].parse().unwrap();
    let mut rng = rand::rngs::StdRng::seed_from_u64(seed);
    let concs = concretisations(&mut rng);
    let (mut evals, mut mism) = (0u64, 0u64);
    for (ci, c) in cases.iter().enumerate() {
        let n = c["a"].as_array().unwrap().len();
        let trust = c["trust"].as_bool().unwrap();
        let want: Vec<(usize, String)> = c["want"].as_array().unwrap().iter()
            .map(|w| (w["p"].as_u64().unwrap() as usize - 1, w["act"].as_str().unwrap().to_string())).collect();
        for (ki, conc) in concs.iter().enumerate() {
            let (mut a, mut b, mut e) = (FpMap::new(), FpMap::new(), FpMap::new());
            for p in 0..n {
                if let Some(f) = fp_of(&c["a"][p], conc) { a.insert(path_name_in(ci + ki, p), f); }
                if let Some(f) = fp_of(&c["b"][p], conc) { b.insert(path_name_in(ci + ki, p), f); }
                if let Some(f) = fp_of(&c["e"][p], conc) { e.insert(path_name_in(ci + ki, p), f); }
            }
            // whole-tree function
            let r = std::panic::catch_unwind(|| reconcile(&a, &b, &e, trust));
            evals += 1;
            let got: Vec<(usize, String)> = match &r {
                Ok(v) => v.iter().map(|(p, act)| ((0..4).find(|i| &path_name_in(ci + ki, *i) == p).unwrap_or(98), act_name(*act).to_string())).collect(),
                Err(_) => vec![(99, "PANIC".into())],
            };
            // the property fixes WHICH decisions are returned (one per path of the union), not their order
            let (mut gs, mut ws) = (got.clone(), want.clone());
            gs.sort();
            ws.sort();
            if gs != ws {
                mism += 1;
                out.write(&json!({"kind":"tree","case":ci,"conc":ki,"input":c,"got":got,"want":want}));
            }
            // per-path function on every path, with the base the tree-level loop would use
            for p in 0..n {
                let fa = fp_of(&c["a"][p], conc);
                let fb = fp_of(&c["b"][p], conc);
                let fz = if trust { fp_of(&c["e"][p], conc) } else { None };
                let r = std::panic::catch_unwind(|| reconcile_path(fa, fb, fz));
                evals += 1;
                let got1 = r.map(|a| act_name(a).to_string()).unwrap_or("PANIC".into());
                let want1 = want.iter().find(|(q, _)| *q == p).map(|(_, a)| a.clone()).unwrap_or("Noop".into());
                if got1 != want1 {
                    mism += 1;
                    out.write(&json!({"kind":"path","case":ci,"conc":ki,"p":p,"input":c,"got":got1,"want":want1}));
                }
            }
        }
    }
    out.write(&json!({"kind":"summary","cases":cases.len(),"evaluations":evals,"mismatches":mism,"concretisations":concs.len()}));
    out.finish();
}

/// Code -> spec: random 32-byte digests with induced (near-)equalities; the record carries the
/// equality classes (by byte comparison) so the TLC trace spec can evaluate Table on them.
fn cmd_reconcile_random(args: &[String]) {
    let n: usize = args[0].parse().unwrap();
    let seed: u64 = args[1].parse().unwrap();
    let mut out = NdjsonWriter::create(&args[2]);
    let mut rng = rand::rngs::StdRng::seed_from_u64(seed);
    for _ in 0..n {
        let pool: Vec<[u8; 32]> = {
            let base: [u8; 32] = rng.gen();
            let mut v = vec![base];
            let mut near = base;
            near[rng.gen_range(0..32)] ^= 1 << rng.gen_range(0..8);
            v.push(near);
            v.push(rng.gen());
            v
        };
        let mut pick = |rng: &mut rand::rngs::StdRng| -> Option<Fingerprint> {
            if rng.gen_range(0..4) == 0 { return None; }
            Some(Fingerprint { blake3: pool[rng.gen_range(0..3)], ftype: if rng.gen_range(0..4) == 0 { FileType::Symlink } else { FileType::File } })
        };
        let (a, b, z) = (pick(&mut rng), pick(&mut rng), pick(&mut rng));
        let act = std::panic::catch_unwind(|| reconcile_path(a, b, z)).map(|x| act_name(x).to_string()).unwrap_or("PANIC".into());
        // equality classes by byte comparison of the digests
        let mut classes: Vec<[u8; 32]> = Vec::new();
        let mut enc = |f: Option<Fingerprint>| -> Value {
            match f {
                None => json!({"d":0,"t":"none"}),
                Some(f) => {
                    let idx = classes.iter().position(|c| *c == f.blake3).unwrap_or_else(|| { classes.push(f.blake3); classes.len() - 1 });
                    json!({"d": idx + 1, "t": if f.ftype == FileType::File {"File"} else {"Symlink"}})
                }
            }
        };
        let (ja, jb, jz) = (enc(a), enc(b), enc(z));
        out.write(&json!({"ev":"rec","a":ja,"b":jb,"z":jz,"act":act}));
    }
    out.finish();
}


// ---------------------------------------------------------------------------------------------
// C19 / C15: glob_match, is_excluded, build_plan, parse_remote_meta_output
// ---------------------------------------------------------------------------------------------
use cb::meta::parse_remote_meta_output;
use cb::plan::{build_plan, glob_match, is_excluded, FileMeta, MetaMap};

fn chars_to_string(v: &Value) -> String {
    v.as_array().unwrap().iter().map(|c| c.as_str().unwrap()).collect()
}
fn all_strs(sigma: &[String], l: usize) -> Vec<Vec<String>> {
    let mut out: Vec<Vec<String>> = vec![vec![]];
    let mut cur: Vec<Vec<String>> = vec![vec![]];
    for _ in 0..l {
        let mut next = Vec::new();
        for s in &cur {
            for c in sigma {
                let mut t = s.clone();
                t.push(c.clone());
                next.push(t);
            }
        }
        out.extend(next.iter().cloned());
        cur = next;
    }
    out
}
fn rel_path(comps: &[String]) -> PathBuf {
    let mut p = PathBuf::new();
    for c in comps {
        p.push(c);
    }
    p
}

/// args: cases.ndjson out.ndjson L  (Sigma is fixed to the spec's alphabet)
fn cmd_glob_cases(args: &[String]) {
    let cases = read_ndjson(&args[0]);
    let mut out = NdjsonWriter::create(&args[1]);
    let l: usize = args[2].parse().unwrap();
    let sigma: Vec<String> = ["a", "b", "*", "?", ".", "/"].iter().map(|s| s.to_string()).collect();
    let texts: Vec<String> = all_strs(&sigma, l).iter().map(|t| t.concat()).collect();
    // Rels exactly as Glob.tla defines them
    let names: Vec<String> = all_strs(&sigma, 2).iter().map(|t| t.concat()).filter(|t| !t.is_empty() && !t.contains('/') && t != "." && t != "..").collect();
    let mut rels: Vec<Vec<String>> = names.iter().map(|n| vec![n.clone()]).collect();
    for pre in ["a", "*", "a."] {
        for n in &names {
            rels.push(vec![pre.to_string(), n.clone()]);
        }
    }
    let (mut evals, mut mism, mut nontrivial) = (0u64, 0u64, 0u64);
    for c in &cases {
        let pat = chars_to_string(&c["pat"]);
        let yes: std::collections::HashSet<String> = c["yes"].as_array().unwrap().iter().map(chars_to_string).collect();
        let excl: std::collections::HashSet<Vec<String>> = c["excl"].as_array().unwrap().iter()
            .map(|r| r.as_array().unwrap().iter().map(chars_to_string).collect()).collect();
        if !yes.is_empty() && yes.len() < texts.len() { nontrivial += 1; }
        for t in &texts {
            let got = std::panic::catch_unwind(|| glob_match(&pat, t));
            evals += 1;
            let want = yes.contains(t);
            if got.as_ref().ok() != Some(&want) {
                mism += 1;
                if mism < 200 { out.write(&json!({"kind":"glob","pat":pat,"text":t,"want":want,"got":format!("{got:?}")})); }
            }
        }
        for r in &rels {
            let path = rel_path(r);
            let got = std::panic::catch_unwind(|| is_excluded(&path, &[pat.clone()]));
            evals += 1;
            let want = excl.contains(r);
            if got.as_ref().ok() != Some(&want) {
                mism += 1;
                if mism < 200 { out.write(&json!({"kind":"excl","pat":pat,"rel":r,"want":want,"got":format!("{got:?}")})); }
            }
        }
    }
    out.write(&json!({"kind":"summary","cases":cases.len(),"texts":texts.len(),"rels":rels.len(),"evaluations":evals,"mismatches":mism,"nontrivial":nontrivial}));
    out.finish();
}

const PLAN_NAMES: [&str; 3] = ["a", "a/b", "a.b"];

fn cmd_plan_cases(args: &[String]) {
    let cases = read_ndjson(&args[0]);
    let mut out = NdjsonWriter::create(&args[1]);
    let seed: u64 = args[2].parse().unwrap();
    let mut rng = rand::rngs::StdRng::seed_from_u64(seed);
    // concretisations of the abstract sizes / mtimes {1,2}
    let concs: Vec<([u64; 2], [i64; 2])> = vec![
        ([0, 1], [0, 1]),
        ([5, 6], [1_700_000_000, 1_700_000_001]),
        ([u64::MAX - 1, u64::MAX], [i64::MAX - 1, i64::MAX]),
        ([1 << 32, (1 << 32) + 1], [(1 << 31) - 1, 1 << 31]),
        ([rng.gen(), rng.gen()], [rng.gen_range(0..i64::MAX), rng.gen_range(0..i64::MAX)]),
    ];
    let (mut evals, mut mism, mut nontrivial) = (0u64, 0u64, 0u64);
    for (ci, c) in cases.iter().enumerate() {
        let pats: Vec<String> = c["pats"].as_array().unwrap().iter().map(chars_to_string).collect();
        let del = c["del"].as_bool().unwrap();
        let want_t: Vec<usize> = c["transfer"].as_array().unwrap().iter().map(|x| x.as_u64().unwrap() as usize - 1).collect();
        let want_d: Vec<usize> = c["delete"].as_array().unwrap().iter().map(|x| x.as_u64().unwrap() as usize - 1).collect();
        let want_s = c["skipped"].as_u64().unwrap() as usize;
        if !want_t.is_empty() || !want_d.is_empty() { nontrivial += 1; }
        for (ki, (sz, mt)) in concs.iter().enumerate() {
            if sz[0] == sz[1] || mt[0] == mt[1] { continue; }
            let mk = |side: &Value| -> MetaMap {
                let mut m = MetaMap::new();
                for (i, e) in side.as_array().unwrap().iter().enumerate() {
                    let a = e.as_array().unwrap();
                    if a.len() == 2 {
                        m.insert(PathBuf::from(PLAN_NAMES[i]), FileMeta { size: sz[a[0].as_u64().unwrap() as usize - 1], mtime: mt[a[1].as_u64().unwrap() as usize - 1] });
                    }
                }
                m
            };
            let (src, dst) = (mk(&c["src"]), mk(&c["dst"]));
            let r = std::panic::catch_unwind(|| build_plan(&src, &dst, &pats, del));
            evals += 1;
            let idx = |p: &PathBuf| PLAN_NAMES.iter().position(|n| PathBuf::from(n) == *p).unwrap_or(99);
            let ok = match &r {
                Ok(pl) => pl.transfer.iter().map(idx).collect::<Vec<_>>() == want_t
                    && pl.delete.iter().map(idx).collect::<Vec<_>>() == want_d && pl.skipped == want_s,
                Err(_) => false,
            };
            if !ok {
                mism += 1;
                if mism < 100 {
                    out.write(&json!({"kind":"plan","case":ci,"conc":ki,"input":c,"got":r.as_ref().map(|pl| format!("{pl:?}")).unwrap_or("PANIC".into())}));
                }
            }
        }
    }
    out.write(&json!({"kind":"summary","cases":cases.len(),"evaluations":evals,"mismatches":mism,"nontrivial":nontrivial}));
    out.finish();
}

fn tok_bytes(v: &Value) -> Vec<u8> {
    let mut out = Vec::new();
    for t in v.as_array().unwrap() {
        match t.as_str().unwrap() {
            "TAB" => out.push(b'\t'),
            "NL" => out.push(b'\n'),
            "NUL" => out.push(0),
            x => out.extend_from_slice(x.as_bytes()),
        }
    }
    out
}

fn cmd_listing_cases(args: &[String]) {
    let cases = read_ndjson(&args[0]);
    let mut out = NdjsonWriter::create(&args[1]);
    let (mut evals, mut mism, mut nontrivial) = (0u64, 0u64, 0u64);
    for (ci, c) in cases.iter().enumerate() {
        let bytes = tok_bytes(&c["bytes"]);
        let mut want: std::collections::BTreeMap<PathBuf, (u64, i64)> = Default::default();
        for w in c["want"].as_array().unwrap() {
            let path = String::from_utf8(tok_bytes(&w["path"])).unwrap();
            let size: u64 = String::from_utf8(tok_bytes(&w["size"])).unwrap().parse().unwrap();
            let secs: i64 = String::from_utf8(tok_bytes(&w["secs"])).unwrap().parse().unwrap();
            want.insert(PathBuf::from(path), (size, secs));
        }
        if want.len() >= 1 { nontrivial += 1; }
        let r = std::panic::catch_unwind(|| parse_remote_meta_output(&bytes));
        evals += 1;
        let got: Option<std::collections::BTreeMap<PathBuf, (u64, i64)>> = r.ok().map(|m| m.into_iter().map(|(p, fm)| (p, (fm.size, fm.mtime))).collect());
        if got.as_ref() != Some(&want) {
            mism += 1;
            if mism < 100 {
                out.write(&json!({"kind":"listing","case":ci,"bytes":String::from_utf8_lossy(&bytes),"want":format!("{want:?}"),"got":format!("{got:?}")}));
            }
        }
    }
    out.write(&json!({"kind":"summary","cases":cases.len(),"evaluations":evals,"mismatches":mism,"nontrivial":nontrivial}));
    out.finish();
}

fn chars_json(s: &str) -> Value {
    Value::Array(s.chars().map(|c| Value::String(c.to_string())).collect())
}

/// code -> spec: seeded cases beyond the exhaustive scope, results recorded for PlanTrace.tla
fn cmd_plan_random(args: &[String]) {
    let n: usize = args[0].parse().unwrap();
    let seed: u64 = args[1].parse().unwrap();
    let mut out = NdjsonWriter::create(&args[2]);
    let mut rng = rand::rngs::StdRng::seed_from_u64(seed);
    let alpha: Vec<char> = vec!['a', 'b', 'c', '*', '?', '.', '-', '[', 'é', ' '];
    let gen_str = |rng: &mut rand::rngs::StdRng, maxlen: usize, star_bias: bool, slash: bool| -> String {
        let len = rng.gen_range(0..=maxlen);
        (0..len).map(|_| {
            if slash && rng.gen_range(0..6) == 0 { return '/'; }
            if star_bias && rng.gen_range(0..3) == 0 { return if rng.gen() { '*' } else { '?' }; }
            alpha[rng.gen_range(0..alpha.len())]
        }).collect()
    };
    for k in 0..n {
        match k % 3 {
            0 => {
                // glob: text derived from the pattern half of the time so matches are frequent
                let pat = gen_str(&mut rng, 8, true, false);
                let text = if rng.gen() {
                    pat.chars().flat_map(|c| match c {
                        '*' => { let m = rng.gen_range(0..3); (0..m).map(|_| alpha[rng.gen_range(0..alpha.len())]).collect::<Vec<_>>() }
                        '?' => vec![alpha[rng.gen_range(0..alpha.len())]],
                        c => if rng.gen_range(0..12) == 0 { vec![alpha[rng.gen_range(0..alpha.len())]] } else { vec![c] },
                    }).collect()
                } else { gen_str(&mut rng, 8, false, false) };
                let res = std::panic::catch_unwind(|| glob_match(&pat, &text));
                out.write(&json!({"ev":"glob","pat":chars_json(&pat),"text":chars_json(&text),"res":res.unwrap_or(false) , "panic": false}));
            }
            1 => {
                let depth = rng.gen_range(1..=4);
                let comps: Vec<String> = (0..depth).map(|_| { let mut s = gen_str(&mut rng, 4, false, false); if s.is_empty() || s == "." || s == ".." { s = "x".into(); } s }).collect();
                let npat = rng.gen_range(0..=3);
                let pats: Vec<String> = (0..npat).map(|_| {
                    if rng.gen_range(0..3) == 0 { comps[rng.gen_range(0..comps.len())].clone() + if rng.gen() { "/" } else { "" } }
                    else if rng.gen_range(0..3) == 0 { comps.join("/") }
                    else { gen_str(&mut rng, 5, true, true) }
                }).collect();
                let path = rel_path(&comps);
                let res = std::panic::catch_unwind(|| is_excluded(&path, &pats)).unwrap_or(false);
                out.write(&json!({"ev":"excl","rel":comps.iter().map(|c| chars_json(c)).collect::<Vec<_>>(),
                    "pats":pats.iter().map(|p| chars_json(p)).collect::<Vec<_>>(),"res":res}));
            }
            _ => {
                let nfiles = rng.gen_range(1..=8);
                let mut paths: std::collections::BTreeSet<PathBuf> = Default::default();
                while paths.len() < nfiles {
                    let depth = rng.gen_range(1..=3);
                    let comps: Vec<String> = (0..depth).map(|_| { let mut s = gen_str(&mut rng, 3, false, false); if s.is_empty() || s == "." || s == ".." { s = "y".into(); } s }).collect();
                    paths.insert(rel_path(&comps));
                }
                let paths: Vec<PathBuf> = paths.into_iter().collect(); // PathBuf order
                let sizes = [0u64, 1, 4096, u64::MAX];
                let mtimes = [0i64, 1, 1_700_000_000, i64::MAX];
                let (mut src, mut dst) = (MetaMap::new(), MetaMap::new());
                let (mut js, mut jd) = (Vec::new(), Vec::new());
                for p in &paths {
                    let mut side = |m: &mut MetaMap, j: &mut Vec<Value>, rng: &mut rand::rngs::StdRng| {
                        if rng.gen_range(0..3) == 0 { j.push(json!([])); } else {
                            let (a, b) = (rng.gen_range(0..4), rng.gen_range(0..4));
                            m.insert(p.clone(), FileMeta { size: sizes[a], mtime: mtimes[b] });
                            j.push(json!([a + 1, b + 1]));
                        }
                    };
                    side(&mut src, &mut js, &mut rng);
                    side(&mut dst, &mut jd, &mut rng);
                }
                let npat = rng.gen_range(0..=2);
                let pats: Vec<String> = (0..npat).map(|_| {
                    if rng.gen() { let p = &paths[rng.gen_range(0..paths.len())]; p.components().next().unwrap().as_os_str().to_string_lossy().into_owned() }
                    else { gen_str(&mut rng, 4, true, true) }
                }).collect();
                let del: bool = rng.gen();
                let r = std::panic::catch_unwind(|| build_plan(&src, &dst, &pats, del));
                let idx = |p: &PathBuf| paths.iter().position(|q| q == p).map(|i| i + 1).unwrap_or(0);
                let (t, d, s) = match &r { Ok(pl) => (pl.transfer.iter().map(idx).collect::<Vec<_>>(), pl.delete.iter().map(idx).collect::<Vec<_>>(), pl.skipped), Err(_) => (vec![0], vec![0], 0) };
                let names: Vec<Value> = paths.iter().map(|p| Value::Array(p.components().map(|c| chars_json(&c.as_os_str().to_string_lossy())).collect())).collect();
                out.write(&json!({"ev":"plan","names":names,"src":js,"dst":jd,"pats":pats.iter().map(|p| chars_json(p)).collect::<Vec<_>>(),
                    "del":del,"transfer":t,"delete":d,"skipped":s}));
            }
        }
    }
    out.finish();
}

fn main() {
    std::panic::set_hook(Box::new(|_| {}));
    let args: Vec<String> = std::env::args().skip(1).collect();
    let rest = &args[1..];
    match args[0].as_str() {
        "reconcile-cases" => cmd_reconcile_cases(rest),
        "reconcile-random" => cmd_reconcile_random(rest),
        "glob-cases" => cmd_glob_cases(rest),
        "plan-cases" => cmd_plan_cases(rest),
        "listing-cases" => cmd_listing_cases(rest),
        "plan-random" => cmd_plan_random(rest),
        x => { eprintln!("unknown subcommand {x}"); std::process::exit(2) }
    }
}
