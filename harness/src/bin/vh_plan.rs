//! Binding E for the CLI's pure functions: reconcile (C18), planner / glob / listing (C19, C15).
#![allow(dead_code, unused_imports, clippy::all)]

#[path = "../binmods_pure.rs"]
mod cb;

use cb::reconcile::{reconcile, reconcile_path, Action, ConflictKind, FileType, Fingerprint, FpMap};
use rand::{Rng, SeedableRng};
use serde_json::{json, Value};
use std::path::PathBuf;
use vh::util::{read_ndjson, NdjsonWriter};

fn act_name(a: Action) -> &'static str {
    match a {
        Action::Noop => "Noop",
        Action::PropagateAtoB => "PropagateAtoB",
        Action::PropagateBtoA => "PropagateBtoA",
        Action::ConvergeIdentical => "ConvergeIdentical",
        Action::DeleteA => "DeleteA",
        Action::DeleteB => "DeleteB",
        Action::Conflict(ConflictKind::BothChanged) => "ConflictBothChanged",
        Action::Conflict(ConflictKind::DeleteVsModify) => "ConflictDeleteVsModify",
    }
}

/// A concretisation maps digest ids 1..k to 32-byte digests.
fn concretisations(rng: &mut rand::rngs::StdRng) -> Vec<Vec<[u8; 32]>> {
    let mut out = Vec::new();
    // random digests
    for _ in 0..2 {
        out.push((0..4).map(|_| rng.gen::<[u8; 32]>()).collect());
    }
    // digests differing only in the last byte / only in the first byte / only in one middle bit
    for pos in [31usize, 0, 17] {
        let base: [u8; 32] = rng.gen();
        let v: Vec<[u8; 32]> = (0..4u8)
            .map(|i| {
                let mut d = base;
                d[pos] ^= 1 << i;
                d
            })
            .collect();
        out.push(v);
    }
    // all-zero vs all-ones vs near
    out.push(vec![[0u8; 32], [0xffu8; 32], { let mut d = [0u8; 32]; d[31] = 1; d }, { let mut d = [0xffu8; 32]; d[0] = 0xfe; d }]);
    out
}

fn fp_of(v: &Value, conc: &[[u8; 32]]) -> Option<Fingerprint> {
    let d = v["d"].as_u64().unwrap() as usize;
    if d == 0 {
        return None;
    }
    let t = match v["t"].as_str().unwrap() {
        "File" => FileType::File,
        "Symlink" => FileType::Symlink,
        x => panic!("type {x}"),
    };
    Some(Fingerprint { blake3: conc[d - 1], ftype: t })
}

fn path_name(i: usize) -> PathBuf {
    // names whose PathBuf order equals the numeric order of the spec's path ids
    PathBuf::from(["a/x", "a/y", "b", "c"][i])
}

fn cmd_reconcile_cases(args: &[String]) {
    let cases = read_ndjson(&args[0]);
    let mut out = NdjsonWriter::create(&args[1]);
    let seed: u64 = args[2].parse().unwrap();
    let mut rng = rand::rngs::StdRng::seed_from_u64(seed);
    let concs = concretisations(&mut rng);
    let (mut evals, mut mism) = (0u64, 0u64);
    for (ci, c) in cases.iter().enumerate() {
        let n = c["a"].as_array().unwrap().len();
        let trust = c["trust"].as_bool().unwrap();
        let want: Vec<(usize, String)> = c["want"].as_array().unwrap().iter()
            .map(|w| (w["p"].as_u64().unwrap() as usize - 1, w["act"].as_str().unwrap().to_string())).collect();
        for (ki, conc) in concs.iter().enumerate() {
            let (mut a, mut b, mut e) = (FpMap::new(), FpMap::new(), FpMap::new());
            for p in 0..n {
                if let Some(f) = fp_of(&c["a"][p], conc) { a.insert(path_name(p), f); }
                if let Some(f) = fp_of(&c["b"][p], conc) { b.insert(path_name(p), f); }
                if let Some(f) = fp_of(&c["e"][p], conc) { e.insert(path_name(p), f); }
            }
            // whole-tree function
            let r = std::panic::catch_unwind(|| reconcile(&a, &b, &e, trust));
            evals += 1;
            let got: Vec<(usize, String)> = match &r {
                Ok(v) => v.iter().map(|(p, act)| ((0..4).find(|i| &path_name(*i) == p).unwrap(), act_name(*act).to_string())).collect(),
                Err(_) => vec![(99, "PANIC".into())],
            };
            if got != want {
                mism += 1;
                out.write(&json!({"kind":"tree","case":ci,"conc":ki,"input":c,"got":got,"want":want}));
            }
            // per-path function on every path, with the base the tree-level loop would use
            for p in 0..n {
                let fa = fp_of(&c["a"][p], conc);
                let fb = fp_of(&c["b"][p], conc);
                let fz = if trust { fp_of(&c["e"][p], conc) } else { None };
                let r = std::panic::catch_unwind(|| reconcile_path(fa, fb, fz));
                evals += 1;
                let got1 = r.map(|a| act_name(a).to_string()).unwrap_or("PANIC".into());
                let want1 = want.iter().find(|(q, _)| *q == p).map(|(_, a)| a.clone()).unwrap_or("Noop".into());
                if got1 != want1 {
                    mism += 1;
                    out.write(&json!({"kind":"path","case":ci,"conc":ki,"p":p,"input":c,"got":got1,"want":want1}));
                }
            }
        }
    }
    out.write(&json!({"kind":"summary","cases":cases.len(),"evaluations":evals,"mismatches":mism,"concretisations":concs.len()}));
    out.finish();
}

/// Code -> spec: random 32-byte digests with induced (near-)equalities; the record carries the
/// equality classes (by byte comparison) so the TLC trace spec can evaluate Table on them.
fn cmd_reconcile_random(args: &[String]) {
    let n: usize = args[0].parse().unwrap();
    let seed: u64 = args[1].parse().unwrap();
    let mut out = NdjsonWriter::create(&args[2]);
    let mut rng = rand::rngs::StdRng::seed_from_u64(seed);
    for _ in 0..n {
        let pool: Vec<[u8; 32]> = {
            let base: [u8; 32] = rng.gen();
            let mut v = vec![base];
            let mut near = base;
            near[rng.gen_range(0..32)] ^= 1 << rng.gen_range(0..8);
            v.push(near);
            v.push(rng.gen());
            v
        };
        let mut pick = |rng: &mut rand::rngs::StdRng| -> Option<Fingerprint> {
            if rng.gen_range(0..4) == 0 { return None; }
            Some(Fingerprint { blake3: pool[rng.gen_range(0..3)], ftype: if rng.gen_range(0..4) == 0 { FileType::Symlink } else { FileType::File } })
        };
        let (a, b, z) = (pick(&mut rng), pick(&mut rng), pick(&mut rng));
        let act = std::panic::catch_unwind(|| reconcile_path(a, b, z)).map(|x| act_name(x).to_string()).unwrap_or("PANIC".into());
        // equality classes by byte comparison of the digests
        let mut classes: Vec<[u8; 32]> = Vec::new();
        let mut enc = |f: Option<Fingerprint>| -> Value {
            match f {
                None => json!({"d":0,"t":"none"}),
                Some(f) => {
                    let idx = classes.iter().position(|c| *c == f.blake3).unwrap_or_else(|| { classes.push(f.blake3); classes.len() - 1 });
                    json!({"d": idx + 1, "t": if f.ftype == FileType::File {"File"} else {"Symlink"}})
                }
            }
        };
        let (ja, jb, jz) = (enc(a), enc(b), enc(z));
        out.write(&json!({"ev":"rec","a":ja,"b":jb,"z":jz,"act":act}));
    }
    out.finish();
}

fn main() {
    let args: Vec<String> = std::env::args().skip(1).collect();
    let rest = &args[1..];
    match args[0].as_str() {
        "reconcile-cases" => cmd_reconcile_cases(rest),
        "reconcile-random" => cmd_reconcile_random(rest),
        x => { eprintln!("unknown subcommand {x}"); std::process::exit(2) }
    }
}
