//! Library-level bindings (public API of the `copia` crate only): rolling checksums (C17),
//! delta engine (C01, C16), patch under corruption (C05), codecs (C20).
#![allow(dead_code, clippy::all)]

use copia::{FastRollingChecksum, RollingChecksum};
use rand::{Rng, SeedableRng};
use rand::rngs::StdRng;
use serde_json::{json, Value};
use std::panic::{catch_unwind, AssertUnwindSafe};
use vh::util::{read_ndjson, NdjsonWriter};

mod rolling {
    use super::*;

    pub struct Sink {
        prefix: String,
        shard: usize,
        cur: Option<NdjsonWriter>,
        in_shard: usize,
        pub files: Vec<(String, usize)>,
        pub events: usize,
        pub runs: usize,
        pub max_events_per_shard: usize,
        pub disagreements: usize,
    }
    impl Sink {
        pub fn new(prefix: &str) -> Self {
            Self { prefix: prefix.into(), shard: 0, cur: None, in_shard: 0, files: vec![], events: 0, runs: 0, max_events_per_shard: 60_000, disagreements: 0 }
        }
        fn rotate(&mut self) {
            if let Some(w) = self.cur.take() {
                w.finish();
                self.files.push((format!("{}{}.ndjson", self.prefix, self.shard), self.in_shard));
                self.shard += 1;
            }
            self.in_shard = 0;
        }
        fn w(&mut self) -> &mut NdjsonWriter {
            if self.cur.is_none() {
                self.cur = Some(NdjsonWriter::create(&format!("{}{}.ndjson", self.prefix, self.shard)));
            }
            self.cur.as_mut().unwrap()
        }
        fn emit(&mut self, v: Value) {
            self.w().write(&v);
            self.in_shard += 1;
            self.events += 1;
        }
        pub fn finish(&mut self) {
            self.rotate();
        }
    }

    fn obs(p: &RollingChecksum, f: &FastRollingChecksum) -> (Value, Value, u32, u32) {
        let pd = p.digest();
        let fd = f.digest();
        (json!([pd >> 16, pd & 0xffff, p.len()]), json!([fd >> 16, fd & 0xffff, f.len()]), p.sum_a(), p.sum_b())
    }

    /// One run: a byte array and a list of ops moving a window over it. ops: ('n', s, n) | ('p') | ('r')
    pub fn run(sink: &mut Sink, data: &[u8], ops: &[(char, usize, usize)]) {
        if sink.in_shard + ops.len() + 1 > sink.max_events_per_shard && sink.in_shard > 0 {
            sink.rotate();
        }
        sink.runs += 1;
        sink.emit(json!({"ev":"data","bytes":data}));
        let mut p = RollingChecksum::empty();
        let mut f = FastRollingChecksum::empty();
        let (mut s, mut n) = (0usize, 0usize);
        for &(op, os, on) in ops {
            let r = catch_unwind(AssertUnwindSafe(|| match op {
                'n' => {
                    p = RollingChecksum::new(&data[os..os + on]);
                    f = FastRollingChecksum::new(&data[os..os + on]);
                    s = os;
                    n = on;
                    "new"
                }
                'p' => {
                    p.push(data[s + n]);
                    f.push(data[s + n]);
                    n += 1;
                    "push"
                }
                'r' => {
                    p.roll(data[s], data[s + n]);
                    f.roll(data[s], data[s + n]);
                    s += 1;
                    "roll"
                }
                _ => unreachable!(),
            }));
            match r {
                Ok(name) => {
                    let (po, fo, pa, pb) = obs(&p, &f);
                    if po != fo {
                        sink.disagreements += 1;
                    }
                    if name == "new" {
                        sink.emit(json!({"ev":name,"s":s,"n":n,"p":po,"f":fo,"pa":pa,"pb":pb}));
                    } else {
                        sink.emit(json!({"ev":name,"p":po,"f":fo,"pa":pa,"pb":pb}));
                    }
                }
                Err(_) => {
                    sink.emit(json!({"ev":"panic","op":op.to_string()}));
                    return;
                }
            }
        }
    }

    /// Replay one TLC behaviour: model bytes mapped through `map`, every byte / op replicated `rep` times.
    pub fn replay_case(sink: &mut Sink, case: &Value, map: &dyn Fn(u64, usize) -> u8, rep: usize) {
        let ops_j = case["ops"].as_array().unwrap();
        let mut data: Vec<u8> = Vec::new();
        let mut ops: Vec<(char, usize, usize)> = Vec::new();
        for o in ops_j {
            match o["op"].as_str().unwrap() {
                "new" => {
                    for x in o["data"].as_array().unwrap() {
                        for k in 0..rep {
                            data.push(map(x.as_u64().unwrap(), k));
                        }
                    }
                    ops.push(('n', 0, data.len()));
                }
                name => {
                    let x = o["x"].as_u64().unwrap();
                    for k in 0..rep {
                        data.push(map(x, k));
                        ops.push((if name == "push" { 'p' } else { 'r' }, 0, 0));
                    }
                }
            }
        }
        run(sink, &data, &ops);
    }

    pub fn gen_data(rng: &mut StdRng, class: usize, len: usize) -> Vec<u8> {
        match class {
            0 => vec![0u8; len],
            1 => vec![0xffu8; len],
            2 => (0..len).map(|i| (i % 256) as u8).collect(),
            3 => (0..len).map(|_| rng.gen_range(200..=255u8)).collect(),
            4 => (0..len).map(|i| if i % 2 == 0 { 0xff } else { 0 }).collect(),
            _ => (0..len).map(|_| rng.gen()).collect(),
        }
    }
}

fn cmd_rolling(args: &[String]) {
    let cases = read_ndjson(&args[0]);
    let prefix = &args[1];
    let seed: u64 = args[2].parse().unwrap();
    let thorough = args[3] == "thorough";
    let mut rng = StdRng::seed_from_u64(seed);
    let mut sink = rolling::Sink::new(prefix);

    // (1) spec -> code: every TLC behaviour, literal (rep = 1), several byte maps
    let tables: Vec<[u8; 3]> = vec![[0, 1, 255], [0, 128, 255], [17, 200, 255], [0, 254, 255], [255, 255, 255],
                                   [rng.gen(), rng.gen(), rng.gen()]];
    let idx = |x: u64| -> usize { match x { 0 => 0, 3 => 1, _ => 2 } };
    let nt = if thorough { tables.len() } else { 3 };
    for c in &cases {
        for t in tables.iter().take(nt) {
            rolling::replay_case(&mut sink, c, &|x, _k| t[idx(x)], 1);
        }
    }
    let literal_runs = sink.runs;
    // (2) the same behaviours with every byte / op replicated so that sums cross 65521, 2^16*255 and 2^32
    let reps: &[(usize, usize)] = if thorough { &[(64, 400), (1024, 60), (8192, 12), (21845, 6)] } else { &[(64, 60), (1024, 8), (21845, 2)] };
    for &(rep, count) in reps {
        for _ in 0..count {
            let c = &cases[rng.gen_range(0..cases.len())];
            let t = tables[rng.gen_range(0..tables.len())];
            let jitter: bool = rng.gen();
            let mut r2 = StdRng::seed_from_u64(rng.gen());
            let noise: Vec<u8> = (0..rep).map(|_| r2.gen_range(0..4u8)).collect();
            rolling::replay_case(&mut sink, c, &|x, k| { let v = t[idx(x)]; if jitter { v.saturating_sub(noise[k]) } else { v } }, rep);
        }
    }
    let replicated_runs = sink.runs - literal_runs;
    // (3) code -> spec: long seeded runs at real window sizes
    let wls: &[usize] = &[1, 2, 3, 255, 511, 512, 513, 4096, 16384, 16385, 32768, 65535, 65536];
    let slides: &[usize] = if thorough { &[7, 300, 5001, 10050, 20011] } else { &[7, 5001, 10050] };
    let nlong = if thorough { 160 } else { 22 };
    for i in 0..nlong {
        let wl = wls[(i + rng.gen_range(0..wls.len())) % wls.len()];
        let sl = slides[rng.gen_range(0..slides.len())];
        let class = (i + rng.gen_range(0..2)) % 6;
        let mode = rng.gen_range(0..3);
        let data = rolling::gen_data(&mut rng, class, wl + sl + 8);
        let mut ops: Vec<(char, usize, usize)> = Vec::new();
        match mode {
            0 => {
                ops.push(('n', 0, wl));
                for _ in 0..sl { ops.push(('r', 0, 0)); }
            }
            1 => {
                // grow by pushes from a short prefix, then slide
                let start = rng.gen_range(0..wl.min(4));
                let grow = (wl - start).min(6000);
                ops.push(('n', 0, start));
                for _ in 0..grow { ops.push(('p', 0, 0)); }
                for _ in 0..sl.min(data.len() - start - grow - 1) { ops.push(('r', 0, 0)); }
            }
            _ => {
                // slides with a re-construction in the middle (what the delta scan does after a match)
                ops.push(('n', 0, wl));
                let h = sl / 2;
                for _ in 0..h { ops.push(('r', 0, 0)); }
                ops.push(('n', h.min(4), wl));
                for _ in 0..(sl - h - 4.min(h)).min(sl) { ops.push(('r', 0, 0)); }
            }
        }
        // keep the window inside the array
        let mut s = 0usize; let mut n = 0usize; let mut ok = Vec::new();
        for &(op, a, b) in &ops {
            match op {
                'n' => { s = a; n = b; ok.push((op, a, b)); }
                'p' => { if s + n < data.len() { n += 1; ok.push((op, a, b)); } }
                _ => { if n >= 1 && s + n < data.len() { s += 1; ok.push((op, a, b)); } }
            }
        }
        rolling::run(&mut sink, &data, &ok);
    }
    sink.finish();
    println!("{}", json!({"files": sink.files, "events": sink.events, "runs": sink.runs, "literal_runs": literal_runs,
        "replicated_runs": replicated_runs, "long_runs": nlong, "plain_fast_disagreements": sink.disagreements}));
}

fn main() {
    let args: Vec<String> = std::env::args().skip(1).collect();
    let rest = &args[1..];
    match args[0].as_str() {
        "rolling" => cmd_rolling(rest),
        x => { eprintln!("unknown subcommand {x}"); std::process::exit(2) }
    }
}
