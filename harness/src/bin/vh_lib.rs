//! Library-level bindings (public API of the `copia` crate only): rolling checksums (C17),
//! delta engine (C01, C16), patch under corruption (C05), codecs (C20).
#![allow(dead_code, unused_imports, clippy::all)]

use copia::{FastRollingChecksum, RollingChecksum};
use rand::{Rng, SeedableRng};
use rand::rngs::StdRng;
use serde_json::{json, Value};
use std::panic::{catch_unwind, AssertUnwindSafe};
use vh::util::{read_ndjson, NdjsonWriter};


// Counting allocator: lets the codec checks observe how much memory a decode call reserves.
mod countalloc {
    use std::alloc::{GlobalAlloc, Layout, System};
    use std::sync::atomic::{AtomicUsize, Ordering};
    pub static LIVE: AtomicUsize = AtomicUsize::new(0);
    pub static PEAK: AtomicUsize = AtomicUsize::new(0);
    pub static MAXONE: AtomicUsize = AtomicUsize::new(0);
    pub struct Counting;
    unsafe impl GlobalAlloc for Counting {
        unsafe fn alloc(&self, l: Layout) -> *mut u8 { note(l.size()); System.alloc(l) }
        unsafe fn alloc_zeroed(&self, l: Layout) -> *mut u8 { note(l.size()); System.alloc_zeroed(l) }
        unsafe fn dealloc(&self, p: *mut u8, l: Layout) { LIVE.fetch_sub(l.size(), Ordering::Relaxed); System.dealloc(p, l) }
        unsafe fn realloc(&self, p: *mut u8, l: Layout, n: usize) -> *mut u8 {
            if n > l.size() { note(n - l.size()); MAXONE.fetch_max(n, Ordering::Relaxed); } else { LIVE.fetch_sub(l.size() - n, Ordering::Relaxed); }
            System.realloc(p, l, n)
        }
    }
    fn note(sz: usize) {
        let live = LIVE.fetch_add(sz, Ordering::Relaxed) + sz;
        PEAK.fetch_max(live, Ordering::Relaxed);
        MAXONE.fetch_max(sz, Ordering::Relaxed);
    }
    /// run f and return (result, peak additional live bytes during f, largest single request)
    pub fn measure<T>(f: impl FnOnce() -> T) -> (T, usize, usize) {
        let base = LIVE.load(Ordering::Relaxed);
        PEAK.store(base, Ordering::Relaxed);
        MAXONE.store(0, Ordering::Relaxed);
        let r = f();
        (r, PEAK.load(Ordering::Relaxed).saturating_sub(base), MAXONE.load(Ordering::Relaxed))
    }
}
#[global_allocator]
static GLOBAL: countalloc::Counting = countalloc::Counting;

mod rolling {
    use super::*;

    pub struct Sink {
        prefix: String,
        shard: usize,
        cur: Option<NdjsonWriter>,
        in_shard: usize,
        pub files: Vec<(String, usize)>,
        pub events: usize,
        pub runs: usize,
        pub max_events_per_shard: usize,
        pub disagreements: usize,
    }
    impl Sink {
        pub fn new(prefix: &str) -> Self {
            Self { prefix: prefix.into(), shard: 0, cur: None, in_shard: 0, files: vec![], events: 0, runs: 0, max_events_per_shard: 60_000, disagreements: 0 }
        }
        fn rotate(&mut self) {
            if let Some(w) = self.cur.take() {
                w.finish();
                self.files.push((format!("{}{}.ndjson", self.prefix, self.shard), self.in_shard));
                self.shard += 1;
            }
            self.in_shard = 0;
        }
        fn w(&mut self) -> &mut NdjsonWriter {
            if self.cur.is_none() {
                self.cur = Some(NdjsonWriter::create(&format!("{}{}.ndjson", self.prefix, self.shard)));
            }
            self.cur.as_mut().unwrap()
        }
        fn emit(&mut self, v: Value) {
            self.w().write(&v);
            self.in_shard += 1;
            self.events += 1;
        }
        pub fn finish(&mut self) {
            self.rotate();
        }
    }

    fn obs(p: &RollingChecksum, f: &FastRollingChecksum) -> (Value, Value, u32, u32) {
        let pd = p.digest();
        let fd = f.digest();
        (json!([pd >> 16, pd & 0xffff, p.len()]), json!([fd >> 16, fd & 0xffff, f.len()]), p.sum_a(), p.sum_b())
    }

    /// One run: a byte array and a list of ops moving a window over it. ops: ('n', s, n) | ('p') | ('r')
    pub fn run(sink: &mut Sink, data: &[u8], ops: &[(char, usize, usize)]) {
        if sink.in_shard + ops.len() + 1 > sink.max_events_per_shard && sink.in_shard > 0 {
            sink.rotate();
        }
        sink.runs += 1;
        sink.emit(json!({"ev":"data","bytes":data}));
        let mut p = RollingChecksum::empty();
        let mut f = FastRollingChecksum::empty();
        let (mut s, mut n) = (0usize, 0usize);
        for &(op, os, on) in ops {
            let r = catch_unwind(AssertUnwindSafe(|| match op {
                'n' => {
                    p = RollingChecksum::new(&data[os..os + on]);
                    f = FastRollingChecksum::new(&data[os..os + on]);
                    s = os;
                    n = on;
                    "new"
                }
                'p' => {
                    p.push(data[s + n]);
                    f.push(data[s + n]);
                    n += 1;
                    "push"
                }
                'r' => {
                    p.roll(data[s], data[s + n]);
                    f.roll(data[s], data[s + n]);
                    s += 1;
                    "roll"
                }
                _ => unreachable!(),
            }));
            match r {
                Ok(name) => {
                    let (po, fo, pa, pb) = obs(&p, &f);
                    if po != fo {
                        sink.disagreements += 1;
                    }
                    if name == "new" {
                        sink.emit(json!({"ev":name,"s":s,"n":n,"p":po,"f":fo,"pa":pa,"pb":pb}));
                    } else {
                        sink.emit(json!({"ev":name,"p":po,"f":fo,"pa":pa,"pb":pb}));
                    }
                }
                Err(_) => {
                    sink.emit(json!({"ev":"panic","op":op.to_string()}));
                    return;
                }
            }
        }
    }

    /// Replay one TLC behaviour: model bytes mapped through `map`, every byte / op replicated `rep` times.
    pub fn replay_case(sink: &mut Sink, case: &Value, map: &dyn Fn(u64, usize) -> u8, rep: usize) {
        let ops_j = case["ops"].as_array().unwrap();
        let mut data: Vec<u8> = Vec::new();
        let mut ops: Vec<(char, usize, usize)> = Vec::new();
        for o in ops_j {
            match o["op"].as_str().unwrap() {
                "new" => {
                    for x in o["data"].as_array().unwrap() {
                        for k in 0..rep {
                            data.push(map(x.as_u64().unwrap(), k));
                        }
                    }
                    ops.push(('n', 0, data.len()));
                }
                name => {
                    let x = o["x"].as_u64().unwrap();
                    for k in 0..rep {
                        data.push(map(x, k));
                        ops.push((if name == "push" { 'p' } else { 'r' }, 0, 0));
                    }
                }
            }
        }
        run(sink, &data, &ops);
    }

    /// A very long run: `slides` one-byte slides of a window of `wl` bytes over a generated stream, without a record
    /// per slide.  At each checkpoint the bytes currently in the window are written as a "data" line followed by a
    /// "new" event carrying what the ROLLED checksums report - RollingTrace's New compares exactly that with the
    /// definition over those bytes ("equals the digest obtained by constructing the checksum directly from the bytes
    /// currently in the window").
    pub fn marathon(sink: &mut Sink, wl: usize, slides: usize, every: usize, byte_at: &dyn Fn(usize) -> u8) {
        sink.rotate();
        sink.runs += 1;
        let first: Vec<u8> = (0..wl).map(byte_at).collect();
        let mut win: std::collections::VecDeque<u8> = first.iter().copied().collect();
        // (construction can be what panics: that is data too, not the harness's end)
        let built = catch_unwind(AssertUnwindSafe(|| (RollingChecksum::new(&first), FastRollingChecksum::new(&first))));
        let (mut p, mut f) = match built {
            Ok(x) => x,
            Err(_) => {
                sink.emit(json!({"ev":"data","bytes":first,"after_slides":0}));
                sink.emit(json!({"ev":"panic","op":"n"}));
                sink.rotate();
                return;
            }
        };
        let mut done = 0usize;
        while done < slides {
            let chunk = every.min(slides - done);
            let r = catch_unwind(AssertUnwindSafe(|| {
                for k in 0..chunk {
                    let newb = byte_at(wl + done + k);
                    let old = win.pop_front().unwrap();
                    win.push_back(newb);
                    p.roll(old, newb);
                    f.roll(old, newb);
                }
            }));
            done += chunk;
            let bytes: Vec<u8> = win.iter().copied().collect();
            sink.emit(json!({"ev":"data","bytes":bytes,"after_slides":done}));
            match r {
                Ok(()) => {
                    let (po, fo, pa, pb) = obs(&p, &f);
                    if po != fo { sink.disagreements += 1; }
                    sink.emit(json!({"ev":"new","s":0,"n":wl,"p":po,"f":fo,"pa":pa,"pb":pb}));
                }
                Err(_) => { sink.emit(json!({"ev":"panic","op":"r"})); break; }
            }
        }
        sink.rotate();
    }

    pub fn gen_data(rng: &mut StdRng, class: usize, len: usize) -> Vec<u8> {
        match class {
            0 => vec![0u8; len],
            1 => vec![0xffu8; len],
            2 => (0..len).map(|i| (i % 256) as u8).collect(),
            3 => (0..len).map(|_| rng.gen_range(200..=255u8)).collect(),
            4 => (0..len).map(|i| if i % 2 == 0 { 0xff } else { 0 }).collect(),
            _ => (0..len).map(|_| rng.gen()).collect(),
        }
    }
}

fn cmd_rolling(args: &[String]) {
    let cases = read_ndjson(&args[0]);
    let prefix = &args[1];
    let seed: u64 = args[2].parse().unwrap();
    let thorough = args[3] == "thorough";
    let mut rng = StdRng::seed_from_u64(seed);
    let mut sink = rolling::Sink::new(prefix);

    // (1) spec -> code: every TLC behaviour, literal (rep = 1), several byte maps
    let tables: Vec<[u8; 3]> = vec![[0, 1, 255], [0, 128, 255], [17, 200, 255], [0, 254, 255], [255, 255, 255],
                                   [rng.gen(), rng.gen(), rng.gen()]];
    let idx = |x: u64| -> usize { match x { 0 => 0, 3 => 1, _ => 2 } };
    let nt = if thorough { tables.len() } else { 3 };
    for c in &cases {
        for t in tables.iter().take(nt) {
            rolling::replay_case(&mut sink, c, &|x, _k| t[idx(x)], 1);
        }
    }
    let literal_runs = sink.runs;
    // (2) the same behaviours with every byte / op replicated so that sums cross 65521, 2^16*255 and 2^32
    let reps: &[(usize, usize)] = if thorough { &[(64, 400), (1024, 60), (8192, 12), (21845, 6)] } else { &[(64, 60), (1024, 8), (21845, 2)] };
    for &(rep, count) in reps {
        for _ in 0..count {
            let c = &cases[rng.gen_range(0..cases.len())];
            let t = tables[rng.gen_range(0..tables.len())];
            let jitter: bool = rng.gen();
            let mut r2 = StdRng::seed_from_u64(rng.gen());
            let noise: Vec<u8> = (0..rep).map(|_| r2.gen_range(0..4u8)).collect();
            rolling::replay_case(&mut sink, c, &|x, k| { let v = t[idx(x)]; if jitter { v.saturating_sub(noise[k]) } else { v } }, rep);
        }
    }
    let replicated_runs = sink.runs - literal_runs;
    // (3) code -> spec: long seeded runs at real window sizes
    let wls: &[usize] = &[1, 2, 3, 255, 511, 512, 513, 4096, 16384, 16385, 32768, 65535, 65536];
    let slides: &[usize] = if thorough { &[7, 300, 5001, 10050, 20011] } else { &[7, 5001, 10050] };
    let nlong = if thorough { 160 } else { 22 };
    for i in 0..nlong {
        let wl = wls[(i + rng.gen_range(0..wls.len())) % wls.len()];
        let sl = slides[rng.gen_range(0..slides.len())];
        let class = (i + rng.gen_range(0..2)) % 6;
        let mode = rng.gen_range(0..3);
        let data = rolling::gen_data(&mut rng, class, wl + sl + 8);
        let mut ops: Vec<(char, usize, usize)> = Vec::new();
        match mode {
            0 => {
                ops.push(('n', 0, wl));
                for _ in 0..sl { ops.push(('r', 0, 0)); }
            }
            1 => {
                // grow by pushes from a short prefix, then slide
                let start = rng.gen_range(0..wl.min(4));
                let grow = (wl - start).min(6000);
                ops.push(('n', 0, start));
                for _ in 0..grow { ops.push(('p', 0, 0)); }
                for _ in 0..sl.min(data.len() - start - grow - 1) { ops.push(('r', 0, 0)); }
            }
            _ => {
                // slides with a re-construction in the middle (what the delta scan does after a match)
                ops.push(('n', 0, wl));
                let h = sl / 2;
                for _ in 0..h { ops.push(('r', 0, 0)); }
                ops.push(('n', h.min(4), wl));
                for _ in 0..(sl - h - 4.min(h)).min(sl) { ops.push(('r', 0, 0)); }
            }
        }
        // keep the window inside the array
        let mut s = 0usize; let mut n = 0usize; let mut ok = Vec::new();
        for &(op, a, b) in &ops {
            match op {
                'n' => { s = a; n = b; ok.push((op, a, b)); }
                'p' => { if s + n < data.len() { n += 1; ok.push((op, a, b)); } }
                _ => { if n >= 1 && s + n < data.len() { s += 1; ok.push((op, a, b)); } }
            }
        }
        rolling::run(&mut sink, &data, &ok);
    }
    // (3b) always: the largest windows slid without a break right up to (and past) a normalisation point - where the lazily
    //      reduced sums are largest (the seeded runs above meet this combination only by luck)
    for (k, &wl) in [65536usize, 65535, 56000, 32768].iter().enumerate() {
        for class in [k % 6, (k + 3) % 6] {
            let sl = 5003;
            let data = rolling::gen_data(&mut rng, class, wl + sl + 8);
            let mut ops: Vec<(char, usize, usize)> = vec![('n', 0, wl)];
            for _ in 0..sl { ops.push(('r', 0, 0)); }
            rolling::run(&mut sink, &data, &ops);
        }
    }
    // (4) marathons: tens of millions of consecutive slides (what a delta scan does over tens of MiB of new data)
    let mseed: u64 = rng.gen();
    rolling::marathon(&mut sink, 65536, if thorough { 70_000_000 } else { 30_000_000 }, 10_000_000, &|_| 0xff);
    rolling::marathon(&mut sink, 2048, if thorough { 40_000_000 } else { 26_000_000 }, 13_000_000,
                      &|i| { let x = (i as u64).wrapping_mul(0x9E37_79B9_7F4A_7C15).wrapping_add(mseed); 0xe0 | ((x >> 40) as u8 & 0x1f) });
    // ... and over data that swings between long runs of low and of high bytes (the window's sums travel their whole range again
    // and again between any two reductions, whatever the reduction interval is)
    rolling::marathon(&mut sink, 8192, if thorough { 12_000_000 } else { 3_000_000 }, 1_000_003, &|i| if (i / 60_000) % 2 == 0 { 0x01 } else { 0xfe });
    rolling::marathon(&mut sink, 65536, if thorough { 6_000_000 } else { 1_500_000 }, 700_001, &|i| if (i / 150_000) % 2 == 0 { 0x00 } else { 0xff });
    sink.finish();
    println!("{}", json!({"files": sink.files, "events": sink.events, "runs": sink.runs, "literal_runs": literal_runs,
        "replicated_runs": replicated_runs, "long_runs": nlong, "plain_fast_disagreements": sink.disagreements}));
}


// ---------------------------------------------------------------------------------------------
// C01 / C16: delta engine on symbol-expanded cases
// ---------------------------------------------------------------------------------------------
mod deltae {
    use super::*;
    use copia::async_sync::AsyncCopiaSync;
    use copia::{CopiaSync, Delta, DeltaOp, Signature, Sync};
    use std::io::Cursor;

    pub fn chunk(sym: &str, clen: usize, seed: u64) -> Vec<u8> {
        let tag: u64 = sym.bytes().fold(1469598103934665603u64, |h, b| (h ^ b as u64).wrapping_mul(1099511628211));
        let base_tag = if sym == "K2" { "K1".bytes().fold(1469598103934665603u64, |h, b| (h ^ b as u64).wrapping_mul(1099511628211)) } else { tag };
        let mut rng = StdRng::seed_from_u64(seed ^ base_tag ^ ((clen as u64) << 32));
        match sym {
            "H" => {
                let mut v = vec![0xffu8; clen];
                let m = clen.min(16);
                let at = (clen - m) / 2;
                for i in 0..m { v[at + i] = rng.gen_range(0xf0..=0xff); }
                // make sure the marker is not all-0xFF
                v[at] = 0xf0 | (rng.gen::<u8>() & 0x0e);
                v
            }
            "K1" | "K2" => {
                let mut v: Vec<u8> = (0..clen).map(|_| rng.gen()).collect();
                let at = clen / 2;
                for i in 0..3 { v[at + i] = rng.gen_range(2..=253); }
                if sym == "K2" { v[at] += 1; v[at + 1] -= 2; v[at + 2] += 1; }
                v
            }
            _ => (0..clen).map(|_| rng.gen()).collect(),
        }
    }

    pub fn expand(syms: &Value, clen: usize, seed: u64) -> Vec<u8> {
        let mut out = Vec::new();
        for s in syms.as_array().unwrap() { out.extend_from_slice(&chunk(s.as_str().unwrap(), clen, seed)); }
        out
    }

    pub fn expected_ops(c: &Value, clen: usize, seed: u64) -> Vec<DeltaOp> {
        c["ops"].as_array().unwrap().iter().map(|o| {
            if o["t"] == "C" {
                DeltaOp::Copy { offset: o["off"].as_u64().unwrap() * clen as u64, len: (o["len"].as_u64().unwrap() * clen as u64) as u32 }
            } else {
                DeltaOp::Literal(expand(&o["data"], clen, seed))
            }
        }).collect()
    }

    pub struct Outcome { pub viol: Vec<String>, pub nonconf: Vec<String> }

    /// All library-level clauses of C01 / C16 on one concrete (basis, source, R).
    pub fn check_lib(rt: &tokio::runtime::Runtime, basis: &[u8], source: &[u8], r: usize,
                     expect: Option<&[DeltaOp]>, greedy_lit: Option<u64>) -> (Outcome, Option<Delta>) {
        let mut o = Outcome { viol: vec![], nonconf: vec![] };
        let res = catch_unwind(AssertUnwindSafe(|| {
            let sync = CopiaSync::with_block_size(r);
            let asy = AsyncCopiaSync::with_block_size(r);
            let sig_s = sync.signature(Cursor::new(basis)).map_err(|e| format!("sync signature: {e}"))?;
            let sig_a = rt.block_on(asy.signature(basis)).map_err(|e| format!("async signature: {e}"))?;
            let mut v: Vec<String> = vec![];
            if sig_s != sig_a { v.push("signature differs between sync and async engine".into()); }
            let d_s = sync.delta(Cursor::new(source), &sig_s).map_err(|e| format!("sync delta: {e}"))?;
            let d_a = rt.block_on(asy.delta(source, &sig_a)).map_err(|e| format!("async delta: {e}"))?;
            if d_s != d_a { v.push("delta differs between sync and async engine".into()); }
            if r <= 1024 {
                // the same bytes arriving in short reads (sizes that are no multiple of the block size): same signature, same delta
                for chunk in [r / 3 + 1, r + 5] {
                    let sig_s2 = sync.signature(ShortReads { data: basis, pos: 0, chunk }).map_err(|e| format!("sync signature (short reads): {e}"))?;
                    let sig_a2 = rt.block_on(asy.signature(ShortAsync { data: basis, pos: 0, chunk })).map_err(|e| format!("async signature (short reads): {e}"))?;
                    if sig_s2 != sig_s { v.push(format!("sync signature depends on how the bytes arrive (reads of <= {chunk})")); }
                    if sig_a2 != sig_s { v.push(format!("async signature depends on how the bytes arrive (reads of <= {chunk})")); }
                    // C16 on that path: the delta against a signature built from short reads costs no more literal bytes than greedy
                    if let Some(g) = greedy_lit {
                        for (nm, sg) in [("async", &sig_a2), ("sync", &sig_s2)] {
                            if let Ok(dd) = sync.delta(Cursor::new(source), sg) {
                                let lit: u64 = dd.ops.iter().map(|op| if let DeltaOp::Literal(x) = op { x.len() as u64 } else { 0 }).sum();
                                if lit > g { v.push(format!("C16 {nm} signature over reads of <= {chunk}: delta carries {lit} literal bytes > textbook greedy {g}")); }
                            }
                        }
                    }
                    let d_s2 = sync.delta(ShortReads { data: source, pos: 0, chunk }, &sig_s).map_err(|e| format!("sync delta (short reads): {e}"))?;
                    let d_a2 = rt.block_on(asy.delta(ShortAsync { data: source, pos: 0, chunk }, &sig_s)).map_err(|e| format!("async delta (short reads): {e}"))?;
                    if d_s2 != d_s { v.push(format!("sync delta depends on how the source bytes arrive (reads of <= {chunk})")); }
                    if d_a2 != d_s { v.push(format!("async delta depends on how the source bytes arrive (reads of <= {chunk})")); }
                }
            }
            for (name, d) in [("sync", &d_s), ("async", &d_a)] {
                if d.source_size != source.len() as u64 { v.push(format!("{name}: source_size {} != {}", d.source_size, source.len())); }
                if d.checksum.as_bytes() != blake3::hash(source).as_bytes() { v.push(format!("{name}: checksum is not the source's BLAKE3")); }
                if d.basis_size != basis.len() as u64 { v.push(format!("{name}: basis_size {} != {}", d.basis_size, basis.len())); }
                let (mut sum, mut lit) = (0u64, 0u64);
                for op in &d.ops {
                    match op {
                        DeltaOp::Copy { offset, len } => {
                            sum += u64::from(*len);
                            if offset + u64::from(*len) > basis.len() as u64 { v.push(format!("{name}: copy {offset}+{len} outside the basis ({})", basis.len())); }
                        }
                        DeltaOp::Literal(x) => { sum += x.len() as u64; lit += x.len() as u64; }
                    }
                }
                if sum != source.len() as u64 { v.push(format!("{name}: copy+literal lengths sum to {sum}, source is {}", source.len())); }
                if let Some(g) = greedy_lit { if lit > g { v.push(format!("C16 {name}: {lit} literal bytes > textbook greedy {g}")); } }
                // patch with both engines
                let mut out = Vec::new();
                match sync.patch(Cursor::new(basis), d, &mut out) {
                    Ok(()) => if out != source { v.push(format!("{name} delta, sync patch: Ok but output != source")); },
                    Err(e) => v.push(format!("{name} delta, sync patch failed: {e}")),
                }
                let mut out2 = Vec::new();
                match rt.block_on(asy.patch(Cursor::new(basis.to_vec()), d, &mut out2)) {
                    Ok(()) => if out2 != source { v.push(format!("{name} delta, async patch: Ok but output != source")); },
                    Err(e) => v.push(format!("{name} delta, async patch failed: {e}")),
                }
            }
            Ok::<_, String>((v, d_s))
        }));
        match res {
            Ok(Ok((v, d))) => {
                o.viol = v;
                if let Some(e) = expect { if d.ops != e { o.nonconf.push(format!("ops differ from the spec's scan: got {} ops, want {}", d.ops.len(), e.len())); } }
                (o, Some(d))
            }
            Ok(Err(e)) => { o.viol.push(e); (o, None) }
            Err(p) => { o.viol.push(format!("panic: {}", p.downcast_ref::<String>().cloned().or(p.downcast_ref::<&str>().map(|s| s.to_string())).unwrap_or_default())); (o, None) }
        }
    }

    fn run_ok(cmd: &mut std::process::Command) -> Result<(), String> {
        let o = cmd.env("RUST_LOG", "off").output().map_err(|e| format!("spawn: {e}"))?;
        if o.status.success() { Ok(()) } else { Err(format!("exit {:?}: {}", o.status, String::from_utf8_lossy(&o.stderr).chars().take(300).collect::<String>())) }
    }

    /// CLI file chain + single-file sync on one concrete case; returns violations.
    pub fn check_cli(copia: &str, dir: &std::path::Path, basis: &[u8], source: &[u8], r: usize, lib_delta: Option<&Delta>) -> Vec<String> {
        let mut v = vec![];
        let p = |n: &str| dir.join(n);
        std::fs::write(p("basis"), basis).unwrap();
        std::fs::write(p("source"), source).unwrap();
        let rs = r.to_string();
        let chain = (|| -> Result<(), String> {
            run_ok(std::process::Command::new(copia).args(["signature", p("basis").to_str().unwrap(), "-o", p("sig").to_str().unwrap(), "-b", &rs]))?;
            run_ok(std::process::Command::new(copia).args(["delta", p("source").to_str().unwrap(), p("sig").to_str().unwrap(), "-o", p("delta").to_str().unwrap()]))?;
            run_ok(std::process::Command::new(copia).args(["patch", p("basis").to_str().unwrap(), p("delta").to_str().unwrap(), "-o", p("out").to_str().unwrap()]))?;
            Ok(())
        })();
        match chain {
            Err(e) => v.push(format!("CLI chain failed: {e}")),
            Ok(()) => {
                if std::fs::read(p("out")).unwrap_or_default() != source { v.push("CLI chain: patched file != source".into()); }
                if let Some(ld) = lib_delta {
                    match bincode::deserialize::<Delta>(&std::fs::read(p("delta")).unwrap_or_default()) {
                        Ok(cd) => if &cd != ld { v.push("CLI delta file differs from the library engines' delta".into()); },
                        Err(e) => v.push(format!("CLI delta file does not deserialize: {e}")),
                    }
                    match bincode::deserialize::<Signature>(&std::fs::read(p("sig")).unwrap_or_default()) {
                        Ok(cs) => {
                            let ls = CopiaSync::with_block_size(r).signature(Cursor::new(basis)).unwrap();
                            if cs != ls { v.push("CLI signature file differs from the library signature".into()); }
                        }
                        Err(e) => v.push(format!("CLI signature file does not deserialize: {e}")),
                    }
                }
            }
        }
        // single-file sync: DST (= basis) becomes SRC
        for (dst_init, label) in [(Some(basis), "existing dst"), (None, "absent dst")] {
            let dst = p("dst");
            let _ = std::fs::remove_file(&dst);
            if let Some(b) = dst_init { std::fs::write(&dst, b).unwrap(); }
            match run_ok(std::process::Command::new(copia).args(["sync", p("source").to_str().unwrap(), dst.to_str().unwrap(), "-b", &rs])) {
                Err(e) => v.push(format!("copia sync ({label}) failed: {e}")),
                Ok(()) => if std::fs::read(&dst).unwrap_or_default() != source { v.push(format!("copia sync ({label}): destination != source")); },
            }
            if std::fs::read(p("source")).unwrap_or_default() != source { v.push("copia sync modified the source".into()); }
        }
        // single-file sync over the ssh stand-in (push and pull): whole-file streaming, same round-trip obligation
        if let Ok(shimdir) = std::env::var("VERIF_SHIMDIR") {
            let path_env = format!("{shimdir}:{}", std::env::var("PATH").unwrap_or_default());
            for (label, from, to, out) in [("push", p("source").to_str().unwrap().to_string(), format!("hh:{}", p("dst_push").to_str().unwrap()), p("dst_push")),
                                           ("pull", format!("hh:{}", p("source").to_str().unwrap()), p("dst_pull").to_str().unwrap().to_string(), p("dst_pull"))] {
                let _ = std::fs::remove_file(&out);
                match run_ok(std::process::Command::new(copia).args(["sync", &from, &to, "-b", "4096"]).env("PATH", &path_env)) {
                    Err(e) => v.push(format!("copia sync ({label} via stand-in) failed: {e}")),
                    Ok(()) => if std::fs::read(&out).unwrap_or_default() != source { v.push(format!("copia sync ({label} via stand-in): destination != source")); },
                }
            }
        }
        v
    }
}

/// args: cases.ndjson out.ndjson seed tier copia_bin workdir
fn cmd_delta_cases(args: &[String]) {
    let cases = read_ndjson(&args[0]);
    let seed: u64 = args[2].parse().unwrap();
    let thorough = args[3] == "thorough";
    let copia = args[4].clone();
    let workdir = args[5].clone();
    let all_r: [usize; 8] = [512, 1024, 2048, 4096, 8192, 16384, 32768, 65536];
    // thorough has ~25x more cases (length-4 strings): two block sizes on every case, all eight on every 10th
    let main_r: Vec<usize> = if thorough { vec![512, 65536] } else { vec![512, 2048, 65536] };
    let nthreads = 16usize;
    let results: Vec<Vec<Value>> = std::thread::scope(|sc| {
        let handles: Vec<_> = (0..nthreads).map(|t| {
            let cases = &cases; let main_r = &main_r; let copia = &copia; let workdir = &workdir;
            sc.spawn(move || {
                let rt = tokio::runtime::Builder::new_current_thread().build().unwrap();
                let mut out: Vec<Value> = vec![];
                let (mut evals, mut nontrivial, mut cli) = (0u64, 0u64, 0u64);
                let dir = std::path::Path::new(workdir).join(format!("t{t}"));
                std::fs::create_dir_all(&dir).unwrap();
                for (ci, c) in cases.iter().enumerate() {
                    if ci % nthreads != t { continue; }
                    let b = c["B"].as_u64().unwrap() as usize;
                    let mut rs: Vec<usize> = main_r.clone();
                    if (ci / nthreads) % (if thorough { 10 } else { 20 }) == 0 { rs = all_r.to_vec(); }
                    let has_c = c["ops"].as_array().unwrap().iter().any(|o| o["t"] == "C");
                    let has_l = c["ops"].as_array().unwrap().iter().any(|o| o["t"] == "L");
                    if has_c && has_l { nontrivial += 1; }
                    // "every positive block size": the library engines at block sizes 1, 2, 3, 5 on one byte per symbol (a window
                    // of one byte, a tail shorter than any window) - the round-trip clauses only, the CLI refuses such sizes
                    if (ci / nthreads) % 3 == 0 {
                        let cs = seed.wrapping_add((ci as u64) % 5);
                        let one = |syms: &Value| -> Vec<u8> { syms.as_array().unwrap().iter().map(|s| (s.as_str().unwrap().bytes()
                            .fold(1469598103934665603u64 ^ cs, |h, b| (h ^ b as u64).wrapping_mul(1099511628211)) % 251) as u8).collect() };
                        let basis = one(&c["basis"]);
                        let source = one(&c["source"]);
                        for tiny in [1usize, 2, 3, 5] {
                            // (a signature of any positive block size comes from Signature::generate; the engines take the size from it)
                            let ob = deltal::observe(&rt, &basis, &source, tiny, false);
                            evals += 1;
                            let mut viol: Vec<String> = vec![];
                            if ob["completed"] != true { viol.push(format!("block size {tiny}: the engines failed / panicked: {}", ob["error"])); }
                            else {
                                let sum: u64 = ob["ops"].as_array().unwrap().iter().map(|o| if o[0] == "C" { o[2].as_u64().unwrap() } else { o[1].as_u64().unwrap() }).sum();
                                if sum != source.len() as u64 { viol.push(format!("block size {tiny}: copy+literal lengths sum to {sum}, source is {}", source.len())); }
                                for k in ["lit_ok", "fields_ok", "patched_ok", "engines_agree"] { if ob[k] != true { viol.push(format!("block size {tiny}: {k} is false")); } }
                            }
                            for v in viol { out.push(json!({"kind":"violation","case":ci,"R":tiny,"what":v,"input":{"basis":c["basis"],"source":c["source"],"B":b,"chunk_seed":cs,"clen":1}})); }
                        }
                    }
                    for &r in &rs {
                        let clen = r / b;
                        let cs = seed.wrapping_add((ci as u64) % 5);   // a few chunk families
                        let basis = deltae::expand(&c["basis"], clen, cs);
                        let source = deltae::expand(&c["source"], clen, cs);
                        let expect = deltae::expected_ops(c, clen, cs);
                        let greedy = c["greedy"].as_u64().unwrap() * clen as u64;
                        let (o, d) = deltae::check_lib(&rt, &basis, &source, r, Some(&expect), Some(greedy));
                        evals += 1;
                        for v in o.viol { out.push(json!({"kind":"violation","case":ci,"R":r,"what":v,"input":{"basis":c["basis"],"source":c["source"],"B":b,"chunk_seed":cs}})); }
                        for v in o.nonconf { out.push(json!({"kind":"nonconf","case":ci,"R":r,"what":v})); }
                        // CLI on a rotating subset
                        // the CLI is always run on permutation-like cases (every source block is in the basis, same length, different file)
                        let permuted = has_c && !has_l && c["basis"] != c["source"] && c["basis"].as_array().unwrap().len() == c["source"].as_array().unwrap().len() && r <= 2048;
                        let pick = permuted || if thorough { (ci + r) % 97 == 0 } else { (ci + r / 512) % 211 == 0 };
                        if pick && r <= 8192 || (pick && has_c && has_l) {
                            cli += 1;
                            for v in deltae::check_cli(copia, &dir, &basis, &source, r, d.as_ref()) {
                                out.push(json!({"kind":"violation","case":ci,"R":r,"what":v,"input":{"basis":c["basis"],"source":c["source"],"B":b,"chunk_seed":cs}}));
                            }
                        }
                    }
                }
                let _ = std::fs::remove_dir_all(&dir);
                out.push(json!({"kind":"summary","evaluations":evals,"nontrivial":nontrivial,"cli":cli}));
                out
            })
        }).collect();
        handles.into_iter().map(|h| h.join().unwrap()).collect()
    });
    let mut w = NdjsonWriter::create(&args[1]);
    let (mut evals, mut nontrivial, mut cli) = (0u64, 0u64, 0u64);
    for r in results { for v in r {
        if v["kind"] == "summary" { evals += v["evaluations"].as_u64().unwrap(); nontrivial += v["nontrivial"].as_u64().unwrap(); cli += v["cli"].as_u64().unwrap(); }
        else { w.write(&v); }
    } }
    w.write(&json!({"kind":"summary","cases":cases.len(),"evaluations":evals,"nontrivial":nontrivial,"cli_cases":cli}));
    w.finish();
}


// ---------------------------------------------------------------------------------------------
// C01 / C16 code -> spec: large seeded cases with an independent match map, for DeltaTrace.tla
// ---------------------------------------------------------------------------------------------
mod deltal {
    use super::*;
    use copia::async_sync::AsyncCopiaSync;
    use copia::{CopiaSync, DeltaOp, Signature, Sync};
    use std::collections::HashMap;
    use std::io::Cursor;

    const P: u64 = 0x9E37_79B9_7F4A_7C15 | 1;

    /// every source position whose n-byte window equals a FULL basis block -> lowest such block index
    pub fn match_map(basis: &[u8], source: &[u8], n: usize) -> Vec<(usize, usize)> {
        let mut out = vec![];
        if n == 0 || basis.len() < n || source.len() < n { return out; }
        let h = |w: &[u8]| w.iter().fold(0u64, |a, &b| a.wrapping_mul(P).wrapping_add(u64::from(b) + 1));
        let mut table: HashMap<u64, Vec<usize>> = HashMap::new();
        for i in 0..basis.len() / n { table.entry(h(&basis[i * n..(i + 1) * n])).or_default().push(i); }
        let mut pw = 1u64;
        for _ in 0..n - 1 { pw = pw.wrapping_mul(P); }
        let mut cur = h(&source[..n]);
        let mut pos = 0usize;
        loop {
            if let Some(c) = table.get(&cur) {
                if let Some(&i) = c.iter().find(|&&i| basis[i * n..(i + 1) * n] == source[pos..pos + n]) { out.push((pos, i)); }
            }
            if pos + n >= source.len() { break; }
            cur = cur.wrapping_sub((u64::from(source[pos]) + 1).wrapping_mul(pw)).wrapping_mul(P).wrapping_add(u64::from(source[pos + n]) + 1);
            pos += 1;
        }
        out
    }

    pub fn observe(rt: &tokio::runtime::Runtime, basis: &[u8], source: &[u8], n: usize, valid_r: bool) -> Value {
        let res = catch_unwind(AssertUnwindSafe(|| -> Result<Value, String> {
            let sync = if valid_r { CopiaSync::with_block_size(n) } else { CopiaSync::new() };
            let asy = if valid_r { AsyncCopiaSync::with_block_size(n) } else { AsyncCopiaSync::new() };
            let sig = if valid_r { sync.signature(Cursor::new(basis)).map_err(|e| e.to_string())? }
                      else { Signature::generate(&mut Cursor::new(basis), n).map_err(|e| e.to_string())? };
            let mut agree = true;
            if valid_r {
                let sig_a = rt.block_on(asy.signature(basis)).map_err(|e| e.to_string())?;
                agree &= sig_a == sig;
                // the sequential path on the same bytes (chunks of <= 64 KiB never take the rayon path): block-wise recomputation
                let seq: Vec<copia::BlockSignature> = basis.chunks(n).enumerate().map(|(i, c)| copia::BlockSignature::compute(i as u32, c)).collect();
                agree &= seq == sig.blocks;
            }
            let d = sync.delta(Cursor::new(source), &sig).map_err(|e| e.to_string())?;
            let d_a = rt.block_on(asy.delta(source, &sig)).map_err(|e| e.to_string())?;
            agree &= d == d_a;
            if valid_r {
                // ... and however the bytes arrive (short reads of a size that is no multiple of the block size)
                let chunk = n + n / 3 + 1;
                agree &= rt.block_on(asy.signature(ShortAsync { data: basis, pos: 0, chunk })).map_err(|e| e.to_string())? == sig;
                agree &= sync.signature(ShortReads { data: basis, pos: 0, chunk }).map_err(|e| e.to_string())? == sig;
                agree &= rt.block_on(asy.delta(ShortAsync { data: source, pos: 0, chunk: 4099 }, &sig)).map_err(|e| e.to_string())? == d;
                agree &= sync.delta(ShortReads { data: source, pos: 0, chunk: 4099 }, &sig).map_err(|e| e.to_string())? == d;
            }
            let mut at = 0usize;
            let mut lit_ok = true;
            let mut ops = vec![];
            for op in &d.ops {
                match op {
                    DeltaOp::Copy { offset, len } => { ops.push(json!(["C", offset, len])); at += *len as usize; }
                    DeltaOp::Literal(x) => {
                        lit_ok &= at + x.len() <= source.len() && source[at..at + x.len()] == x[..];
                        ops.push(json!(["L", x.len()]));
                        at += x.len();
                    }
                }
            }
            let fields_ok = d.source_size == source.len() as u64 && d.basis_size == basis.len() as u64
                && d.checksum.as_bytes() == blake3::hash(source).as_bytes() && d.block_size as usize == n;
            let mut out = Vec::new();
            let p1 = sync.patch(Cursor::new(basis), &d, &mut out).is_ok() && out == source;
            let mut out2 = Vec::new();
            let p2 = rt.block_on(asy.patch(Cursor::new(basis.to_vec()), &d, &mut out2)).is_ok() && out2 == source;
            Ok(json!({"completed":true,"ops":ops,"lit_ok":lit_ok,"fields_ok":fields_ok,"patched_ok":p1 && p2,"engines_agree":agree}))
        }));
        match res {
            Ok(Ok(v)) => v,
            Ok(Err(e)) => json!({"completed":false,"ops":[],"lit_ok":false,"fields_ok":false,"patched_ok":false,"engines_agree":false,"error":e}),
            Err(_) => json!({"completed":false,"ops":[],"lit_ok":false,"fields_ok":false,"patched_ok":false,"engines_agree":false,"error":"panic"}),
        }
    }

    pub fn distinct_blocks(rng: &mut StdRng, nblocks: usize, n: usize, class: usize) -> Vec<u8> {
        let mut v = Vec::with_capacity(nblocks * n);
        for b in 0..nblocks {
            match class {
                1 => { // high-sum blocks: 0xFF with a per-block marker
                    let mut blk = vec![0xffu8; n];
                    let tag = (b as u32).to_le_bytes();
                    for (i, t) in tag.iter().enumerate() { if i < n { blk[i] = 0x80 | (t & 0x7f); } }
                    if n > 8 { blk[n / 2] = 0xf0 | (rng.gen::<u8>() & 0xe); }
                    v.extend_from_slice(&blk);
                }
                _ => { for _ in 0..n { v.push(rng.gen()); } }
            }
        }
        v
    }
}

/// args: out_prefix seed tier  -> trace shards + JSON summary on stdout
fn cmd_delta_large(args: &[String]) {
    let prefix = &args[0];
    let seed: u64 = args[1].parse().unwrap();
    let thorough = args[2] == "thorough";
    let mut rng = StdRng::seed_from_u64(seed);
    let rt = tokio::runtime::Builder::new_current_thread().build().unwrap();
    // (label, basis, source, n, valid_r, identical, edit_k)
    let mut jobs: Vec<(String, Vec<u8>, Vec<u8>, usize, bool, bool, i64)> = vec![];
    let all_r: [usize; 8] = [512, 1024, 2048, 4096, 8192, 16384, 32768, 65536];
    for &r in &all_r {
        for class in 0..2 {
            // identical files of assorted lengths
            for &len in &[0usize, 1, r - 1, r, r + 1, 3 * r, 3 * r + 17] {
                let nb = len.div_ceil(r).max(1);
                let mut f = deltal::distinct_blocks(&mut rng, nb, r, class);
                f.truncate(len);
                jobs.push((format!("identical len={len}"), f.clone(), f, r, true, true, -1));
            }
            // k-byte insert / delete / replace at alignment classes in a file of distinct blocks
            let nb = if r >= 16384 { 5 } else { 9 };
            let base = deltal::distinct_blocks(&mut rng, nb, r, class);
            let ks: Vec<usize> = if thorough { vec![1, 7, r - 1, r, r + 3] } else { vec![1, r - 1, r + 3] };
            let offs: Vec<usize> = if thorough { vec![0, 1, r / 2, r - 1, r, 2 * r + 5, base.len() - 1] } else { vec![0, 1, r - 1, 2 * r + 5] };
            for &k in &ks { for &off in &offs {
                let mut ins = base.clone();
                let noise: Vec<u8> = (0..k).map(|_| rng.gen()).collect();
                ins.splice(off..off, noise.iter().cloned());
                jobs.push((format!("insert k={k} at {off}"), base.clone(), ins, r, true, false, k as i64));
                if off + k <= base.len() {
                    let mut del = base.clone();
                    del.drain(off..off + k);
                    jobs.push((format!("delete k={k} at {off}"), base.clone(), del, r, true, false, k as i64));
                    let mut rep = base.clone();
                    for i in 0..k { rep[off + i] ^= 0x55; }
                    jobs.push((format!("replace k={k} at {off}"), base.clone(), rep, r, true, false, k as i64));
                }
            } }
        }
        // > 5000 (and > 10000) consecutive slides before the first match
        for &pre in &[4700usize, 5003, 9800, 10007] {
            let base = deltal::distinct_blocks(&mut rng, 3, r, 0);
            let mut src: Vec<u8> = (0..pre).map(|_| rng.gen()).collect();
            src.extend_from_slice(&base);
            jobs.push((format!("slides={pre}"), base, src, r, true, false, pre as i64));
        }
        // tens of millions of consecutive slides before the first match (24 MiB of new, high-valued data in front of a
        // known tail): thorough only - the rolling registers must survive it (C17's marathons watch the same in quick)
        if thorough && (r == 2048 || r == 65536) {
            let base = deltal::distinct_blocks(&mut rng, 3, r, 0);
            let mut src: Vec<u8> = (0..25_200_000usize).map(|_| 0xe0 | (rng.gen::<u8>() & 0x1f)).collect();
            src.extend_from_slice(&base);
            jobs.push(("slides=25200000".to_string(), base, src, r, true, false, 25_200_000));
        }
        // repeated blocks / constant files
        for &byte in &[0u8, 0xff] {
            jobs.push((format!("constant {byte:#x}"), vec![byte; 2 * r + 3], vec![byte; r + r / 8 + 1], r, true, false, -1));
        }
        let blk = deltal::distinct_blocks(&mut rng, 1, r, 0);
        let mut rep = Vec::new(); for _ in 0..4 { rep.extend_from_slice(&blk); }
        let mut src = rep.clone(); src.splice(5..5, [1u8, 2, 3]);
        jobs.push(("repeated blocks".into(), rep, src, r, true, false, 3));
        // weak-collision neighbours in bytes: block j+1 replaced by a block with the same Adler pair, also unaligned
        {
            let base = deltal::distinct_blocks(&mut rng, 4, r, 0);
            let mut b2 = base.clone();
            let at = 2 * r + r / 3;
            for i in 0..3 { b2[at + i] = 2 + (b2[at + i] % 250); }
            let basis = b2.clone();
            let mut src = b2.clone();
            src[at] += 1; src[at + 1] -= 2; src[at + 2] += 1;
            jobs.push(("weak-colliding block after a match".into(), basis.clone(), src.clone(), r, true, false, 3));
            let mut src2 = vec![9u8; 5]; src2.extend_from_slice(&src);
            jobs.push(("weak-colliding block, unaligned".into(), basis, src2, r, true, false, 8));
        }
        // short all-zero tail in the basis, longer zero run in the source
        {
            let mut basis = deltal::distinct_blocks(&mut rng, 2, r, 0);
            basis.extend_from_slice(&vec![0u8; r / 2]);
            let mut src = basis.clone();
            src.extend_from_slice(&vec![0u8; 2 * r]);
            jobs.push(("zero tail extended".into(), basis, src, r, true, false, -1));
        }
        // blocks whose byte sum is a multiple of 65521 (the all-zero block; a block tuned to sum to exactly m * 65521), met by a
        // window that has been SLID onto them: a digest that is right only for freshly computed windows shows here
        {
            let d = deltal::distinct_blocks(&mut rng, 2, r, 0);
            let mut tuned: Vec<u8> = (0..r).map(|_| rng.gen_range(1..=254u8)).collect();
            let sum: i64 = tuned.iter().map(|&b| i64::from(b)).sum();
            let target = 65521 * ((sum + 32760) / 65521).max(1);
            let mut diff = target - sum;
            let mut i = 0usize;
            while diff != 0 {
                let b = i64::from(tuned[i % r]);
                let step = if diff > 0 { diff.min(254 - b) } else { diff.max(1 - b) };
                tuned[i % r] = (b + step) as u8;
                diff -= step;
                i += 1;
            }
            for (label, special) in [("zero block reached by sliding", vec![0u8; r]), ("block with byte sum m*65521 reached by sliding", tuned)] {
                let mut basis = d[..r].to_vec();
                *basis.last_mut().unwrap() |= 1;
                basis.extend_from_slice(&special);
                basis.extend_from_slice(&d[r..]);
                basis[2 * r] |= 1;
                for &k in &[1usize, r / 3 + 1, r + 7] {
                    let mut src: Vec<u8> = (0..k).map(|_| rng.gen_range(1..=255u8)).collect();
                    src.extend_from_slice(&basis[r..]);
                    jobs.push((format!("{label}, after {k} new bytes"), basis.clone(), src, r, true, false, -1));
                }
            }
        }
    }
    // library level: every positive block size
    for &n in &[1usize, 2, 3, 7, 100, 511, 513, 4095, 65537] {
        let nb = if n < 8 { 40 } else if n < 1000 { 12 } else { 4 };
        let base: Vec<u8> = if n < 8 { (0..nb * n).map(|_| rng.gen_range(0..4u8)).collect() } else { deltal::distinct_blocks(&mut rng, nb, n, 0) };
        let mut src = base.clone();
        let off = base.len() / 3;
        src.splice(off..off, [7u8, 7, 7, 7, 7]);
        jobs.push((format!("odd block size n={n}"), base.clone(), src, n, false, false, if n < 8 { -1 } else { 5 }));
        jobs.push((format!("odd block size n={n} identical"), base.clone(), base, n, false, n >= 8, -1));
    }
    // > 64 KiB (parallel signature path) at small block sizes, and 1 MiB
    for &(len, r) in &[(200_000usize, 2048usize), (1 << 20, 4096), (70_000, 512)] {
        if !thorough && len > 300_000 { continue; }
        let base = deltal::distinct_blocks(&mut rng, len / r + 1, r, 0);
        let mut src = base.clone();
        let off = len / 2 + 13;
        src.splice(off..off + 10, [1u8; 25]);
        jobs.push((format!("large len={len}"), base, src, r, true, false, 25));
    }
    // several MiB whose matches all sit OFF the source's block grid (a short insert near the start, a short delete): whatever
    // the engine does in pieces (segments, buffers, threads) must not cost a block at each seam
    for &(len, r, k) in &[(3 * 1_048_576 + 1000usize, 8192usize, 100usize), (2 * 1_048_576 + 77, 2048, 3)] {
        let base = deltal::distinct_blocks(&mut rng, len / r + 1, r, 0);
        let mut ins = base.clone();
        ins.splice(500..500, (0..k).map(|i| (i * 7 + 1) as u8));
        jobs.push((format!("multi-MiB insert k={k} near the start"), base.clone(), ins, r, true, false, k as i64));
        let mut del = base.clone();
        del.drain(700..700 + k);
        jobs.push((format!("multi-MiB delete k={k} near the start"), base, del, r, true, false, k as i64));
    }
    let mut w = NdjsonWriter::create(&format!("{prefix}0.ndjson"));
    let mut files = vec![];
    let (mut n_in, mut shard, mut total) = (0usize, 0usize, 0usize);
    let mut labels = vec![]; let mut skipped = 0usize;
    for (label, basis, source, n, valid, ident, k) in &jobs {
        let mm = deltal::match_map(basis, source, *n);
        if mm.len() > 3000 { skipped += 1; continue; }
        let mut rec = deltal::observe(&rt, basis, source, *n, *valid);
        let m = rec.as_object_mut().unwrap();
        m.insert("R".into(), json!(n)); m.insert("blen".into(), json!(basis.len())); m.insert("slen".into(), json!(source.len()));
        m.insert("matches".into(), json!(mm)); m.insert("identical".into(), json!(ident)); m.insert("edit_k".into(), json!(k));
        m.insert("label".into(), json!(label));
        w.write(&rec);
        labels.push(label.clone());
        n_in += 1; total += 1;
        if n_in >= 400 { w.finish(); files.push((format!("{prefix}{shard}.ndjson"), n_in)); shard += 1; n_in = 0; w = NdjsonWriter::create(&format!("{prefix}{shard}.ndjson")); }
    }
    w.finish();
    if n_in > 0 { files.push((format!("{prefix}{shard}.ndjson"), n_in)); }
    println!("{}", json!({"files":files,"records":total,"skipped_dense_match_maps":skipped}));
}


// ---------------------------------------------------------------------------------------------
// C05: patch under corruption (spec -> code on PatchCorrupt cases; code -> spec on byte-level corruptions)
// ---------------------------------------------------------------------------------------------
mod patchc {
    use super::*;
    use copia::async_sync::AsyncCopiaSync;
    use copia::{CopiaError, CopiaSync, Delta, DeltaOp, StrongHash, Sync};
    use std::io::Cursor;

    pub fn class_of(r: &Result<(), CopiaError>) -> &'static str {
        match r {
            Ok(()) => "Ok",
            Err(CopiaError::InvalidCopyBounds { .. }) => "InvalidCopyBounds",
            Err(CopiaError::Io(_)) => "Io",
            Err(CopiaError::ChecksumMismatch { .. }) => "ChecksumMismatch",
            Err(CopiaError::CorruptedDelta) => "CorruptedDelta",
            Err(_) => "OtherError",
        }
    }

    pub struct Obs { pub sync: String, pub asy: String, pub sync_hash_ok: bool, pub asy_hash_ok: bool }

    pub fn run_lib(rt: &tokio::runtime::Runtime, basis: &[u8], d: &Delta) -> Obs {
        let sync = CopiaSync::new();
        let asy = AsyncCopiaSync::new();
        let mut out = Vec::new();
        let rs = catch_unwind(AssertUnwindSafe(|| sync.patch(Cursor::new(basis), d, &mut out)));
        let (sc, sh) = match &rs { Ok(r) => (class_of(r).to_string(), blake3::hash(&out).as_bytes() == d.checksum.as_bytes()), Err(_) => ("PANIC".into(), false) };
        let mut out2 = Vec::new();
        let ra = catch_unwind(AssertUnwindSafe(|| rt.block_on(asy.patch(Cursor::new(basis.to_vec()), d, &mut out2))));
        let (ac, ah) = match &ra { Ok(r) => (class_of(r).to_string(), blake3::hash(&out2).as_bytes() == d.checksum.as_bytes()), Err(_) => ("PANIC".into(), false) };
        Obs { sync: sc, asy: ac, sync_hash_ok: sh, asy_hash_ok: ah }
    }

    /// `copia patch basis delta -o out` -> (exit code or -signal, output hash matches checksum)
    pub fn run_cli(copia: &str, dir: &std::path::Path, basis: &[u8], d: &Delta, raw_delta: Option<&[u8]>) -> (i32, bool, String) {
        std::fs::write(dir.join("pb"), basis).unwrap();
        match raw_delta { Some(b) => std::fs::write(dir.join("pd"), b).unwrap(), None => std::fs::write(dir.join("pd"), bincode::serialize(d).unwrap()).unwrap() }
        // the output path is, in turn, absent / an older and LONGER file / an older and shorter one (a re-run onto the same
        // `-o`): success has to describe the file as it is afterwards, not the bytes handed to the writer
        static TURN: std::sync::atomic::AtomicUsize = std::sync::atomic::AtomicUsize::new(0);
        let _ = std::fs::remove_file(dir.join("po"));
        match TURN.fetch_add(1, std::sync::atomic::Ordering::Relaxed) % 3 {
            1 => std::fs::write(dir.join("po"), vec![0xEEu8; (d.source_size.min(4 << 20) as usize) + 777]).unwrap(),
            2 => std::fs::write(dir.join("po"), b"old").unwrap(),
            _ => {}
        }
        let o = std::process::Command::new("timeout").arg("20").arg(copia).args(["patch", dir.join("pb").to_str().unwrap(), dir.join("pd").to_str().unwrap(), "-o", dir.join("po").to_str().unwrap()])
            .env("RUST_LOG", "off").output().unwrap();
        use std::os::unix::process::ExitStatusExt;
        let code = o.status.code().unwrap_or_else(|| -o.status.signal().unwrap_or(99));
        let outb = std::fs::read(dir.join("po")).unwrap_or_default();
        let stderr = String::from_utf8_lossy(&o.stderr).chars().take(200).collect();
        (code, blake3::hash(&outb).as_bytes() == d.checksum.as_bytes(), stderr)
    }
}

/// args: cases.ndjson out.ndjson seed tier copia_bin workdir
fn cmd_patch_cases(args: &[String]) {
    use copia::{Delta, DeltaOp, StrongHash};
    let cases = read_ndjson(&args[0]);
    let seed: u64 = args[2].parse().unwrap();
    let thorough = args[3] == "thorough";
    let copia = args[4].clone();
    let workdir = args[5].clone();
    let rs: Vec<usize> = if thorough { vec![512, 2048, 8192, 65536] } else { vec![512, 4096] };
    let nthreads = 16usize;
    let results: Vec<Vec<Value>> = std::thread::scope(|sc| {
        let hs: Vec<_> = (0..nthreads).map(|t| {
            let cases = &cases; let rs = &rs; let copia = &copia; let workdir = &workdir;
            sc.spawn(move || {
                let rt = tokio::runtime::Builder::new_current_thread().build().unwrap();
                let dir = std::path::Path::new(workdir).join(format!("p{t}"));
                std::fs::create_dir_all(&dir).unwrap();
                let mut out = vec![];
                let (mut evals, mut nontrivial, mut cli) = (0u64, 0u64, 0u64);
                for (ci, c) in cases.iter().enumerate() {
                    if ci % nthreads != t { continue; }
                    let b = c["B"].as_u64().unwrap() as usize;
                    let want_s = c["sync"].as_str().unwrap();
                    let want_a = c["async"].as_str().unwrap();
                    if want_a != "Ok" { nontrivial += 1; }
                    for &r in rs {
                        let clen = r / b;
                        let basis = deltae::expand(&c["basis"], clen, seed);
                        let ops: Vec<DeltaOp> = deltae::expected_ops(c, clen, seed);
                        let bs = c["blocksize"].as_i64().unwrap();
                        let d = Delta {
                            block_size: if bs >= 0 { bs as u32 } else { r as u32 },
                            source_size: c["ssize"].as_u64().unwrap() * clen as u64,
                            basis_size: c["bsize"].as_u64().unwrap() * clen as u64,
                            ops,
                            checksum: StrongHash::compute(&deltae::expand(&c["csum"], clen, seed)),
                        };
                        let o = patchc::run_lib(&rt, &basis, &d);
                        evals += 1;
                        let inp = json!({"basis":c["basis"],"ops":c["ops"],"ssize":c["ssize"],"bsize":c["bsize"],"csum":c["csum"],"corr":c["corr"],"B":b,"R":r,"blocksize":bs});
                        for (eng, got, hash_ok, want) in [("sync", &o.sync, o.sync_hash_ok, want_s), ("async", &o.asy, o.asy_hash_ok, want_a)] {
                            if got == "PANIC" { out.push(json!({"kind":"violation","case":ci,"what":format!("{eng} patch panicked"),"input":inp})); }
                            else if got == "Ok" && !hash_ok { out.push(json!({"kind":"violation","case":ci,"what":format!("{eng} patch reported success but the bytes written do not hash to delta.checksum"),"input":inp})); }
                            else if got != want { out.push(json!({"kind":"nonconf","case":ci,"what":format!("{eng} patch outcome {got}, spec predicts {want}"),"corr":c["corr"]})); }
                        }
                        let pick = (ci / nthreads) % (if thorough { 5 } else { 23 }) == 0 || bs >= 0;
                        if pick && r == rs[0] {
                            cli += 1;
                            let (code, hash_ok, stderr) = patchc::run_cli(copia, &dir, &basis, &d, None);
                            let want_ok = want_a == "Ok" && (bs < 0 || (bs as usize).is_power_of_two() && (512..=65536).contains(&(bs as usize)));
                            if code < 0 || code > 1 { out.push(json!({"kind":"violation","case":ci,"what":format!("copia patch crashed or hung (status {code}): {stderr}"),"input":inp})); }
                            else if code == 0 && !hash_ok { out.push(json!({"kind":"violation","case":ci,"what":"copia patch exited 0 but the output file does not hash to delta.checksum","input":inp})); }
                            else if (code == 0) != want_ok { out.push(json!({"kind":"nonconf","case":ci,"what":format!("copia patch exit {code}, spec predicts {}", if want_ok {"success"} else {"error"}),"corr":c["corr"]})); }
                        }
                    }
                }
                let _ = std::fs::remove_dir_all(&dir);
                out.push(json!({"kind":"summary","evaluations":evals,"nontrivial":nontrivial,"cli":cli}));
                out
            })
        }).collect();
        hs.into_iter().map(|h| h.join().unwrap()).collect()
    });
    let mut w = NdjsonWriter::create(&args[1]);
    let (mut evals, mut nontrivial, mut cli) = (0u64, 0u64, 0u64);
    for r in results { for v in r {
        if v["kind"] == "summary" { evals += v["evaluations"].as_u64().unwrap(); nontrivial += v["nontrivial"].as_u64().unwrap(); cli += v["cli"].as_u64().unwrap(); }
        else { w.write(&v); }
    } }
    w.write(&json!({"kind":"summary","cases":cases.len(),"evaluations":evals,"nontrivial":nontrivial,"cli_cases":cli}));
    w.finish();
}


/// args: n out.ndjson seed copia_bin workdir   (code -> spec for C05)
fn cmd_patch_random(args: &[String]) {
    use copia::{CopiaSync, Delta, DeltaOp, StrongHash, Sync};
    use std::io::Cursor;
    let n: usize = args[0].parse().unwrap();
    let mut w = NdjsonWriter::create(&args[1]);
    let seed: u64 = args[2].parse().unwrap();
    let copia = &args[3];
    let dir = std::path::PathBuf::from(&args[4]);
    std::fs::create_dir_all(&dir).unwrap();
    let mut rng = StdRng::seed_from_u64(seed);
    let rt = tokio::runtime::Builder::new_current_thread().build().unwrap();
    for k in 0..n {
        let r = [512usize, 2048, 8192][rng.gen_range(0..3)];
        let nb = rng.gen_range(1..8);
        let mut basis: Vec<u8> = (0..nb * r + rng.gen_range(0..r)).map(|_| rng.gen()).collect();
        // every fourth case: the basis ends in a run of zero bytes and is then cut inside that run - what a scratch buffer
        // happens to hold (zeros) must not stand in for basis bytes that are not there
        let zero_from = if k % 4 == 0 { let z = rng.gen_range(1..=nb); let from = (nb - z) * r; for b in &mut basis[from..] { *b = 0; } Some(from) } else { None };
        let mut source = basis.clone();
        for _ in 0..rng.gen_range(0..3) {
            let at = rng.gen_range(0..source.len());
            let ins: Vec<u8> = (0..rng.gen_range(1..40)).map(|_| rng.gen()).collect();
            source.splice(at..at, ins);
        }
        let sync = CopiaSync::with_block_size(r);
        let sig = sync.signature(Cursor::new(&basis)).unwrap();
        let mut d: Delta = sync.delta(Cursor::new(&source), &sig).unwrap();
        let mut huge = false;
        let mut corrs: Vec<String> = vec![];
        for _ in 0..rng.gen_range(1..=3) {
            let which = if zero_from.is_some() && corrs.is_empty() { 1 } else { rng.gen_range(0..16) };
            corrs.push(format!("c{which}"));
            match which {
                0 => { basis = (0..basis.len()).map(|_| rng.gen()).collect(); }
                1 => { let lo = zero_from.filter(|_| corrs.len() == 1).unwrap_or(0).min(basis.len()); let cut = rng.gen_range(lo..=basis.len()); basis.truncate(cut); }
                2 => { let extra = rng.gen_range(1..2000); basis.extend((0..extra).map(|_| rng.gen::<u8>())); }
                3 => { if !basis.is_empty() { let i = rng.gen_range(0..basis.len()); basis[i] ^= 1 << rng.gen_range(0..8); } }
                4 | 5 => {
                    let copies: Vec<usize> = d.ops.iter().enumerate().filter(|(_, o)| o.is_copy()).map(|(i, _)| i).collect();
                    if let Some(&i) = copies.get(rng.gen_range(0..copies.len().max(1))) {
                        if let DeltaOp::Copy { offset, len } = &mut d.ops[i] {
                            match rng.gen_range(0..6) {
                                0 => *offset = offset.wrapping_add(1),
                                1 => *offset = offset.saturating_sub(rng.gen_range(1..600)),
                                2 => *len = len.saturating_add(rng.gen_range(1..600)),
                                3 => *len = len.saturating_sub(rng.gen_range(1..600)),
                                4 => { *offset = rng.gen_range(0..(basis.len() as u64 + 4000)); }
                                _ => { if which == 5 && k % 40 == 0 { *offset = u64::MAX - rng.gen_range(0..4); *len = u32::MAX; huge = true; } else { *len = rng.gen_range(0..70000); } }
                            }
                        }
                    }
                }
                6 => { if !d.ops.is_empty() { let i = rng.gen_range(0..d.ops.len()); d.ops.remove(i); } }
                7 => { if !d.ops.is_empty() { let i = rng.gen_range(0..d.ops.len()); let o = d.ops[i].clone(); d.ops.insert(i, o); } }
                8 => { if d.ops.len() >= 2 { let i = rng.gen_range(0..d.ops.len() - 1); d.ops.swap(i, i + 1); } }
                9 => {
                    let lits: Vec<usize> = d.ops.iter().enumerate().filter(|(_, o)| o.is_literal()).map(|(i, _)| i).collect();
                    if let Some(&i) = lits.get(rng.gen_range(0..lits.len().max(1))) {
                        if let DeltaOp::Literal(x) = &mut d.ops[i] { if !x.is_empty() { let j = rng.gen_range(0..x.len()); x[j] ^= 1 << rng.gen_range(0..8); } }
                    }
                }
                10 => { d.source_size = match rng.gen_range(0..5) { 0 => 0, 1 => rng.gen_range(0..600), 2 => d.source_size / 2, 3 => d.source_size + rng.gen_range(1..5), _ => d.source_size.saturating_sub(rng.gen_range(1..5)) }; }
                11 => { d.basis_size = match rng.gen_range(0..4) { 0 => 0, 1 => d.basis_size.saturating_sub(rng.gen_range(1..3000)), 2 => d.basis_size + rng.gen_range(1..3000), _ => { if k % 40 == 0 { huge = true; u64::MAX } else { d.basis_size + 100_000 } } }; }
                12 => { d.block_size = [0u32, 1, 1000, 4096, 1 << 20, u32::MAX][rng.gen_range(0..6)]; }
                13 => { let mut h = *d.checksum.as_bytes(); h[rng.gen_range(0..32)] ^= 1 << rng.gen_range(0..8); d.checksum = StrongHash::from_bytes(h); }
                14 => { d.ops.reverse(); }
                _ => { d.ops.push(DeltaOp::Copy { offset: 0, len: 0 }); }
            }
        }
        // independent applier: the bytes a correct patch would produce, if it can
        let mut indep: Option<Vec<u8>> = Some(vec![]);
        for op in &d.ops {
            if let Some(out) = indep.as_mut() {
                match op {
                    DeltaOp::Copy { offset, len } => {
                        let end = offset.checked_add(u64::from(*len));
                        match end { Some(e) if e <= basis.len() as u64 => out.extend_from_slice(&basis[*offset as usize..e as usize]), _ => { indep = None; } }
                    }
                    DeltaOp::Literal(x) => out.extend_from_slice(x),
                }
            }
        }
        let indep_ok = indep.as_ref().map_or(false, |o| blake3::hash(o).as_bytes() == d.checksum.as_bytes());
        let o = patchc::run_lib(&rt, &basis, &d);
        let bs = d.block_size as usize;
        let bs_valid = bs.is_power_of_two() && (512..=65536).contains(&bs);
        let (mut cli, mut cli_hash_ok) = (-99i32, false);
        if k % 6 == 0 && !huge {
            let (c, h, _e) = patchc::run_cli(copia, &dir, &basis, &d, None);
            cli = c; cli_hash_ok = h;
        }
        let cap = |x: u64| -> u64 { x.min(1 << 30) };
        let ops: Vec<Value> = d.ops.iter().map(|op| match op { DeltaOp::Copy { offset, len } => json!(["C", cap(*offset), cap(u64::from(*len))]), DeltaOp::Literal(x) => json!(["L", x.len()]) }).collect();
        w.write(&json!({"ops":ops,"bsize":cap(d.basis_size),"ssize":cap(d.source_size),"blen":basis.len(),"indep_ok":indep_ok,"huge":huge,
            "sync":o.sync,"async":o.asy,"sync_hash_ok":o.sync_hash_ok,"async_hash_ok":o.asy_hash_ok,"cli":cli,"cli_hash_ok":cli_hash_ok,"bs_valid":bs_valid,
            "R":r,"corruptions":corrs}));
    }
    // one UNCORRUPTED pair whose delta carries a single literal of 3 MiB (more than a file or a pipe takes in one write call):
    // success must still mean "the bytes produced hash to the checksum", in both engines and through `copia patch`
    {
        let r = 2048usize;
        let basis: Vec<u8> = vec![0u8; 64 * 1024];
        let source: Vec<u8> = (0..3 * 1024 * 1024).map(|_| rng.gen()).collect();
        let sync = CopiaSync::with_block_size(r);
        let sig = sync.signature(Cursor::new(&basis)).unwrap();
        let d: Delta = sync.delta(Cursor::new(&source), &sig).unwrap();
        let o = patchc::run_lib(&rt, &basis, &d);
        let (cli, cli_hash_ok, _e) = patchc::run_cli(copia, &dir, &basis, &d, None);
        let ops: Vec<Value> = d.ops.iter().map(|op| match op { DeltaOp::Copy { offset, len } => json!(["C", *offset, u64::from(*len)]), DeltaOp::Literal(x) => json!(["L", x.len()]) }).collect();
        w.write(&json!({"ops":ops,"bsize":d.basis_size,"ssize":d.source_size,"blen":basis.len(),"indep_ok":true,"huge":false,
            "sync":o.sync,"async":o.asy,"sync_hash_ok":o.sync_hash_ok,"async_hash_ok":o.asy_hash_ok,"cli":cli,"cli_hash_ok":cli_hash_ok,"bs_valid":true,
            "R":r,"corruptions":["none: one literal of 3 MiB"]}));
    }
    w.finish();
    let _ = std::fs::remove_dir_all(&dir);
}


// ---------------------------------------------------------------------------------------------
// C20: framed codec
// ---------------------------------------------------------------------------------------------
mod codecx {
    use super::*;
    use copia::{BlockSignature, Codec, CopiaError, Delta, DeltaOp, FrameHeader, Message, Signature, StrongHash};

    pub fn sample_message(kind: &str, variant: usize, rng: &mut StdRng) -> Message {
        let sig = |n: usize, rng: &mut StdRng| Signature { block_size: [512usize, 2048, 65536][variant % 3], file_size: rng.gen(), blocks: (0..n).map(|i| BlockSignature::new(i as u32, rng.gen(), StrongHash::from_bytes(rng.gen()))).collect() };
        match kind {
            "SignatureRequest" => Message::SignatureRequest { file_id: rng.gen(), block_size: rng.gen() },
            "SignatureResponse" => Message::SignatureResponse { file_id: rng.gen(), signature: sig([0usize, 3, 2000][variant % 3], rng) },
            "DeltaData" => {
                let mut d = Delta::with_checksum(rng.gen(), rng.gen(), rng.gen(), StrongHash::from_bytes(rng.gen()));
                let nops = [0usize, 4, 300][variant % 3];
                for i in 0..nops {
                    if i % 2 == 0 { d.ops.push(DeltaOp::Copy { offset: rng.gen(), len: rng.gen() }); }
                    else { d.ops.push(DeltaOp::Literal((0..rng.gen_range(0..400)).map(|_| rng.gen()).collect())); }
                }
                Message::DeltaData { file_id: rng.gen(), delta: d }
            }
            "Ack" => Message::Ack { file_id: rng.gen(), success: rng.gen(), message: if variant % 2 == 0 { None } else { Some("ok \u{e9} \n".repeat(variant)) } },
            "Error" => Message::Error { code: rng.gen(), message: ["".to_string(), "boom".to_string(), "x".repeat(5000)][variant % 3].clone() },
            "Ping" => Message::Ping { seq: rng.gen() },
            _ => Message::Pong { seq: rng.gen() },
        }
    }

    pub fn class<T>(r: &std::thread::Result<Result<T, CopiaError>>) -> &'static str {
        match r {
            Err(_) => "PANIC",
            Ok(Ok(_)) => "Ok",
            Ok(Err(CopiaError::ProtocolError(_))) => "Protocol",
            Ok(Err(CopiaError::Io(_))) => "Io",
            Ok(Err(_)) => "OtherError",
        }
    }
}

/// The same for the asynchronous engine (a socket, a pipe, a chained reader: short reads of any size before the end).
struct ShortAsync<'a> { data: &'a [u8], pos: usize, chunk: usize }
impl tokio::io::AsyncRead for ShortAsync<'_> {
    fn poll_read(mut self: std::pin::Pin<&mut Self>, _cx: &mut std::task::Context<'_>, buf: &mut tokio::io::ReadBuf<'_>) -> std::task::Poll<std::io::Result<()>> {
        let n = buf.remaining().min(self.chunk).min(self.data.len() - self.pos);
        let at = self.pos;
        buf.put_slice(&self.data[at..at + n]);
        self.pos += n;
        std::task::Poll::Ready(Ok(()))
    }
}

/// args: cases.ndjson out.ndjson seed
/// A reader that hands over at most `chunk` bytes per call.
struct ShortReads<'a> { data: &'a [u8], pos: usize, chunk: usize }
impl std::io::Read for ShortReads<'_> {
    fn read(&mut self, buf: &mut [u8]) -> std::io::Result<usize> {
        let n = buf.len().min(self.chunk).min(self.data.len() - self.pos);
        buf[..n].copy_from_slice(&self.data[self.pos..self.pos + n]);
        self.pos += n;
        Ok(n)
    }
}

fn cmd_codec_cases(args: &[String]) {
    use copia::{Codec, FrameHeader, Message};
    let cases = read_ndjson(&args[0]);
    let mut w = NdjsonWriter::create(&args[1]);
    let seed: u64 = args[2].parse().unwrap();
    let mut rng = StdRng::seed_from_u64(seed);
    const BOUND: usize = 16 * 1024 * 1024;
    let (mut evals, mut nontrivial) = (0u64, 0u64);
    let big = vec![0u8; BOUND];   // backing bytes for eof / oversize cases are never needed beyond the header
    let _ = &big;
    for (ci, cj) in cases.iter().enumerate() {
        let c = &cj["c"];
        let lenc = c["len"].as_str().unwrap();
        let kind = c["kind"].as_str().unwrap();
        // for the inner-length class pick a variant of the kind that has a length field (Ack with Some(message))
        let variant = if lenc == "innerhuge" && kind == "Ack" { ci | 1 } else { ci };
        let msg = codecx::sample_message(kind, variant, &mut rng);
        let mut payload = msg.encode().unwrap();
        let e = payload.len();
        let inner_applies = lenc == "innerhuge" && matches!(kind, "SignatureResponse" | "DeltaData" | "Ack" | "Error");
        if inner_applies {
            let off = match kind { "Error" => 8, "Ack" => 14, "SignatureResponse" => 28, _ => 32 };
            let huge: u64 = [1u64 << 26, 1 << 47, u64::MAX, (1 << 32) + 5][ci % 4];
            payload[off..off + 8].copy_from_slice(&huge.to_le_bytes());
        }
        let (decl, avail): (u32, usize) = match lenc {
            "innerhuge" => (e as u32, e),
            "zero" => (0, 0),
            "trunc" => ((e - 1 - (ci % e.min(5))) as u32, e),   // declared < encoded size
            "exact" => (e as u32, e),
            "pad" => ((e + 1 + ci % 7) as u32, e + 1 + ci % 7),
            "eof" => ((e + 9) as u32, e / 2),
            // exactly the bound: accepted (the payload is only materialised when the header is one the reader gets past)
            "max0" => (BOUND as u32, if c["cut"] == "full" && c["magic"] == "ok" && c["ver"] == 1 && (1..=7).contains(&c["type"].as_u64().unwrap()) { BOUND } else { e }),
            "max1" => ((BOUND + 1) as u32, e),
            _ => (u32::MAX, e),
        };
        let mut hdr = [0u8; 12];
        hdr[..4].copy_from_slice(b"COPA");
        match c["magic"].as_str().unwrap() { "bad1" => hdr[0] ^= 0x20, "bad2" => hdr[1] = 0, "bad3" => hdr[2] = b'p', "bad4" => hdr[3] = 0xff, _ => {} }
        hdr[4..8].copy_from_slice(&decl.to_le_bytes());
        hdr[8] = c["type"].as_u64().unwrap() as u8;
        hdr[9] = c["ver"].as_u64().unwrap() as u8;
        hdr[10..12].copy_from_slice(&((ci % 3) as u16).to_le_bytes());
        let mut stream: Vec<u8> = hdr.to_vec();
        let mut body = payload.clone();
        body.resize(avail.max(body.len().min(avail)), 0xAB);
        body.truncate(avail);
        stream.extend_from_slice(&body);
        match c["cut"].as_str().unwrap() { "cut0" => stream.truncate(0), "cut5" => stream.truncate(5), "cut11" => stream.truncate(11), _ => {} }
        let want = cj["want"].as_str().unwrap();
        if want != "Ok" { nontrivial += 1; }
        if inner_applies {
            // an allocation failure aborts the process: leave a marker naming the case being decoded
            let _ = std::fs::write(format!("{}.cur", args[1]), serde_json::to_vec(&json!({"case":ci,"c":c,"declared_len":decl,"inner_len_index":ci % 4})).unwrap());
        }
        // Codec::read_message over the stream
        let (r, peak, one) = countalloc::measure(|| catch_unwind(AssertUnwindSafe(|| { let mut codec = Codec::new(); codec.read_message(&mut &stream[..]) })));
        evals += 1;
        let got = codecx::class(&r);
        let inp = json!({"c":c,"declared_len":decl,"available":avail,"encoded":e});
        if got == "PANIC" { w.write(&json!({"kind":"violation","case":ci,"what":"Codec::read_message panicked","input":inp})); }
        else if got == "Ok" && want != "Ok" { w.write(&json!({"kind":"violation","case":ci,"what":format!("Codec::read_message accepted a frame that must be an error (spec: {want})"),"input":inp})); }
        else if got != want { w.write(&json!({"kind": if want == "Ok" {"violation"} else {"nonconf"},"case":ci,"what":format!("Codec::read_message -> {got}, spec {want}"),"input":inp})); }
        if got == "Ok" && !inner_applies { if let Ok(Ok(m)) = &r { if *m != msg { w.write(&json!({"kind":"violation","case":ci,"what":"decoded message differs from the original","input":inp})); } } }
        if peak > BOUND + (1 << 20) + 2 * e || one > BOUND + 4096 { w.write(&json!({"kind":"violation","case":ci,"what":format!("read_message reserved {peak} bytes (largest single request {one}) > 16 MiB bound"),"input":inp})); }
        // the same bytes arriving in short reads (a pipe or socket hands over what it has): same outcome, same value
        for chunk in (if lenc == "max0" { [1usize << 20, 65537, (1 << 22) + 1] } else { [1usize, 5, 11 + ci % 3] }) {
            let r2 = catch_unwind(AssertUnwindSafe(|| { let mut codec = Codec::new(); codec.read_message(&mut ShortReads { data: &stream[..], pos: 0, chunk }) }));
            evals += 1;
            let got2 = codecx::class(&r2);
            let same_val = match (&r, &r2) { (Ok(Ok(a)), Ok(Ok(b))) => a == b, _ => true };
            // (which error it is may legitimately depend on where the input ran out; whether it IS one, and the value, may not)
            if (got2 == "Ok") != (got == "Ok") || got2 == "PANIC" || !same_val {
                w.write(&json!({"kind":"violation","case":ci,"what":format!("Codec::read_message over reads of at most {chunk} byte(s) -> {got2}, over one read -> {got}: the outcome depends on how the bytes arrive"),"input":inp}));
                break;
            }
        }
        // FrameHeader::decode on the 12 header bytes, FrameHeader::read_from on the stream
        if c["cut"] == "full" {
            let r = catch_unwind(|| FrameHeader::decode(&hdr));
            evals += 1;
            let got = codecx::class(&r);
            let wanth = cj["hdr"].as_str().unwrap();
            if got == "PANIC" || (got == "Ok") != (wanth == "Ok") {
                w.write(&json!({"kind":"violation","case":ci,"what":format!("FrameHeader::decode -> {got}, spec {wanth}"),"input":inp}));
            } else if let Ok(Ok(h)) = &r {
                if h.encode() != hdr { w.write(&json!({"kind":"violation","case":ci,"what":"encode(decode(header)) != header bytes","input":inp})); }
            }
        }
        // Message::decode on the frame's payload bytes
        if c["cut"] == "full" && matches!(lenc, "zero" | "trunc" | "exact" | "pad" | "max0" | "innerhuge") && body.len() >= (decl as usize).min(BOUND) {
            let pl = &body[..(decl as usize).min(body.len())];
            let (r, peak, _one) = countalloc::measure(|| catch_unwind(|| Message::decode(pl)));
            evals += 1;
            let got = codecx::class(&r);
            let wantm = if matches!(lenc, "exact" | "pad" | "max0") || (lenc == "innerhuge" && !inner_applies) { "Ok" } else { "Protocol" };
            if got == "PANIC" || got != wantm { w.write(&json!({"kind": if got == "PANIC" || wantm == "Ok" {"violation"} else {"nonconf"},"case":ci,"what":format!("Message::decode -> {got}, spec {wantm}"),"input":inp})); }
            if peak > BOUND { w.write(&json!({"kind":"violation","case":ci,"what":format!("Message::decode reserved {peak} bytes"),"input":inp})); }
        }
    }
    w.write(&json!({"kind":"summary","cases":cases.len(),"evaluations":evals,"nontrivial":nontrivial}));
    w.finish();
}


/// args: n out.ndjson seed copia_bin workdir   (code -> spec for C20)
fn cmd_codec_random(args: &[String]) {
    use copia::{Codec, CopiaSync, Delta, Message, Signature, Sync};
    use std::io::Cursor;
    let n: usize = args[0].parse().unwrap();
    let mut w = NdjsonWriter::create(&args[1]);
    let seed: u64 = args[2].parse().unwrap();
    let copia = args[3].clone();
    let dir = std::path::PathBuf::from(&args[4]);
    std::fs::create_dir_all(&dir).unwrap();
    let mut rng = StdRng::seed_from_u64(seed);
    let kinds = ["SignatureRequest", "SignatureResponse", "DeltaData", "Ack", "Error", "Ping", "Pong"];
    // (1) round trips through the framed codec, 1-3 messages per stream
    let mut k = 0usize;
    while k < n {
        let cnt = rng.gen_range(1..=3);
        let msgs: Vec<Message> = (0..cnt).map(|i| codecx::sample_message(kinds[rng.gen_range(0..7)], k + i, &mut rng)).collect();
        let mut stream = Vec::new();
        let codec = Codec::new();
        let mut offs = vec![];
        for m in &msgs { offs.push(stream.len()); codec.write_message(&mut stream, m).unwrap(); }
        let mut rd = Codec::new();
        let mut cur = &stream[..];
        for (i, m) in msgs.iter().enumerate() {
            let back = catch_unwind(AssertUnwindSafe(|| rd.read_message(&mut cur)));
            let eq = matches!(&back, Ok(Ok(b)) if b == m);
            let hdr: Vec<u8> = stream[offs[i]..offs[i] + 12].to_vec();
            let plen = if i + 1 < offs.len() { offs[i + 1] } else { stream.len() } - offs[i] - 12;
            w.write(&json!({"ev":"rt","hdr":hdr,"plen":plen,"decoded_eq":eq,"type_code":m.msg_type() as u8,"kind":format!("{:?}", m.msg_type())}));
            k += 1;
        }
    }
    // (2) the CLI's files: bincode of Signature / Delta, through the real binary, read back with the library
    let basis: Vec<u8> = (0..20_000).map(|_| rng.gen()).collect();
    let mut source = basis.clone();
    source.splice(5000..5000, (0..300).map(|_| rng.gen::<u8>()));
    std::fs::write(dir.join("b"), &basis).unwrap();
    std::fs::write(dir.join("s"), &source).unwrap();
    let run = |a: &[&str]| std::process::Command::new(&copia).args(a).env("RUST_LOG", "off").output().unwrap().status.success();
    let p = |x: &str| dir.join(x).to_str().unwrap().to_string();
    let ok1 = run(&["signature", &p("b"), "-o", &p("sig"), "-b", "2048"]);
    let ok2 = run(&["delta", &p("s"), &p("sig"), "-o", &p("d")]);
    let lib_sig = CopiaSync::with_block_size(2048).signature(Cursor::new(&basis)).unwrap();
    let lib_delta = CopiaSync::with_block_size(2048).delta(Cursor::new(&source), &lib_sig).unwrap();
    let sig_bytes = std::fs::read(dir.join("sig")).unwrap_or_default();
    let d_bytes = std::fs::read(dir.join("d")).unwrap_or_default();
    w.write(&json!({"ev":"file","what":"signature","decoded_eq": ok1 && bincode::deserialize::<Signature>(&sig_bytes).map(|x| x == lib_sig).unwrap_or(false)}));
    w.write(&json!({"ev":"file","what":"delta","decoded_eq": ok2 && bincode::deserialize::<Delta>(&d_bytes).map(|x| x == lib_delta).unwrap_or(false)}));
    // (3) corrupted files through `copia delta` / `copia patch`
    let cli = |which: &str, file: &[u8]| -> Value {
        use std::os::unix::process::ExitStatusExt;
        let f = if which == "delta" { "csig" } else { "cd" };
        std::fs::write(dir.join(f), file).unwrap();
        let cmdline = if which == "delta" { format!("ulimit -v 1000000; exec timeout 20 '{}' delta '{}' '{}' -o '{}'", copia, p("s"), p("csig"), p("o")) }
                      else { format!("ulimit -v 1000000; exec timeout 20 '{}' patch '{}' '{}' -o '{}'", copia, p("b"), p("cd"), p("o")) };
        let o = std::process::Command::new("sh").arg("-c").arg(&cmdline).env("RUST_LOG", "off").output().unwrap();
        let code = o.status.code();
        let stderr = String::from_utf8_lossy(&o.stderr).to_string();
        json!({"exit": code.unwrap_or(-1), "signaled": o.status.signal().is_some() || code.map_or(false, |c| c > 128 && c != 124), "timed_out": code == Some(124),
               "reported": stderr.contains("Error"), "stderr": stderr.chars().take(160).collect::<String>()})
    };
    let mut emit = |w: &mut NdjsonWriter, which: &str, label: String, file: &[u8], must_fail: bool| {
        let mut r = cli(which, file);
        let m = r.as_object_mut().unwrap();
        // strict: the file is malformed beyond argument (truncated, counts that cannot be true, instructions outside the basis,
        // a block size of 0 or above the 65536 maximum): "exit with a reported error" is then a clause of C20 itself.  A block
        // size inside 1..=65536 that is merely not a power of two stays a conformance matter.
        let in_range_size = label.split("block_size=").nth(1).and_then(|v| v.split(' ').next().and_then(|x| x.parse::<u64>().ok())).map_or(false, |v| v >= 1 && v <= 65536);
        let strict = must_fail && !in_range_size;
        m.insert("ev".into(), json!("cli")); m.insert("cmd".into(), json!(which)); m.insert("corruption".into(), json!(label)); m.insert("must_fail".into(), json!(must_fail));
        m.insert("strict".into(), json!(strict));
        w.write(&r);
    };
    let put = |f: &[u8], at: usize, bytes: &[u8]| { let mut v = f.to_vec(); v[at..at + bytes.len()].copy_from_slice(bytes); v };
    // signature file layout: block_size u64 | file_size u64 | count u64 | (index u32, weak u32, strong [32])*
    for bs in [0u64, 1, 511, 1000, 2047, 131072, 1 << 63, u64::MAX,
               // a valid size in the low half only (the field is 8 bytes wide; some code paths carry it as u32)
               (1 << 32) + 4096, (1 << 32) + 2048, (1 << 63) + 4096, 0xdead_beef_0000_0200, (1 << 33) + 65536] {
        emit(&mut w, "delta", format!("sig.block_size={bs}"), &put(&sig_bytes, 0, &bs.to_le_bytes()), true);
    }
    for bs in [512u64, 1024, 65536] { emit(&mut w, "delta", format!("sig.block_size={bs} (valid, different)"), &put(&sig_bytes, 0, &bs.to_le_bytes()), false); }
    for fs in [0u64, 1, u64::MAX] { emit(&mut w, "delta", format!("sig.file_size={fs}"), &put(&sig_bytes, 8, &fs.to_le_bytes()), false); }
    let nblk = lib_sig.blocks.len() as u64;
    for c in [nblk + 1, 1 << 32, 1 << 63, u64::MAX] { emit(&mut w, "delta", format!("sig.block_count={c}"), &put(&sig_bytes, 16, &c.to_le_bytes()), true); }
    for c in [0u64, nblk - 1] { emit(&mut w, "delta", format!("sig.block_count={c} (fewer)"), &put(&sig_bytes, 16, &c.to_le_bytes()), false); }
    for cut in [0usize, 1, 7, 8, 16, 23, 24, 28, 63, 64, sig_bytes.len() - 1] { emit(&mut w, "delta", format!("sig truncated at {cut}"), &sig_bytes[..cut], true); }
    emit(&mut w, "delta", "sig.index=u32::MAX".into(), &put(&sig_bytes, 24, &u32::MAX.to_le_bytes()), false);
    for _ in 0..40 { let mut v = sig_bytes.clone(); let i = rng.gen_range(0..v.len()); v[i] ^= 1 << rng.gen_range(0..8); emit(&mut w, "delta", format!("sig bit flip at {i}"), &v, false); }
    for len in [3usize, 100, 5000] { let v: Vec<u8> = (0..len).map(|_| rng.gen()).collect(); emit(&mut w, "delta", format!("sig garbage {len}"), &v, false); }
    // delta file layout: block_size u32 | source_size u64 | basis_size u64 | op count u64 | ops | checksum [32]
    for bs in [0u32, 1, 1000, 2047, 1 << 20, u32::MAX] { emit(&mut w, "patch", format!("delta.block_size={bs}"), &put(&d_bytes, 0, &bs.to_le_bytes()), true); }
    for c in [lib_delta.ops.len() as u64 + 1, 1 << 32, 1 << 63, u64::MAX] { emit(&mut w, "patch", format!("delta.op_count={c}"), &put(&d_bytes, 20, &c.to_le_bytes()), true); }
    for cut in [0usize, 3, 4, 12, 20, 27, 28, 31, 32, 40, d_bytes.len() - 33, d_bytes.len() - 1] { emit(&mut w, "patch", format!("delta truncated at {cut}"), &d_bytes[..cut.min(d_bytes.len())], true); }
    emit(&mut w, "patch", "delta.op[0] variant=7".into(), &put(&d_bytes, 28, &7u32.to_le_bytes()), true);
    // hostile deltas built as values: huge copy with huge declared basis, huge literal length prefix
    {
        let mut d = lib_delta.clone();
        d.basis_size = u64::MAX;
        d.ops = vec![copia::DeltaOp::Copy { offset: 0, len: u32::MAX }];
        d.source_size = u64::from(u32::MAX);
        emit(&mut w, "patch", "delta: copy len 4 GiB - 1 with basis_size u64::MAX".into(), &bincode::serialize(&d).unwrap(), true);
        d.ops = (0..64).map(|_| copia::DeltaOp::Copy { offset: 0, len: u32::MAX }).collect();
        d.source_size = 64 * u64::from(u32::MAX);
        emit(&mut w, "patch", "delta: 64 copies of 4 GiB - 1".into(), &bincode::serialize(&d).unwrap(), true);
        let mut d2 = lib_delta.clone();
        d2.ops = vec![copia::DeltaOp::Literal(vec![1, 2, 3])];
        let mut bytes = bincode::serialize(&d2).unwrap();
        bytes[32..40].copy_from_slice(&(1u64 << 40).to_le_bytes());   // literal length prefix
        emit(&mut w, "patch", "delta: literal length prefix 2^40".into(), &bytes, true);
    }
    // copy instructions at the edges of u64 / of the basis: offset + len must neither wrap nor pass the end
    if let Some(pos) = lib_delta.ops.iter().position(|o| matches!(o, copia::DeltaOp::Copy { .. })) {
        let len = match lib_delta.ops[pos] { copia::DeltaOp::Copy { len, .. } => len, _ => 0 };
        let l64 = u64::from(len);
        let bl = basis.len() as u64;
        for off in [u64::MAX, u64::MAX - l64 + 1, u64::MAX - l64, u64::MAX - l64 - 1, 1u64 << 63, (1u64 << 63) - 1, 1u64 << 32, bl, bl - l64 + 1] {
            let mut d = lib_delta.clone();
            d.ops[pos] = copia::DeltaOp::Copy { offset: off, len };
            emit(&mut w, "patch", format!("delta: copy offset {off} len {len}"), &bincode::serialize(&d).unwrap(), true);
        }
        for (off, l) in [(0u64, u32::MAX), (u64::MAX, u32::MAX), (u64::MAX - 1, 1u32), (u64::MAX, 0u32), (bl, 1u32)] {
            let mut d = lib_delta.clone();
            d.ops[pos] = copia::DeltaOp::Copy { offset: off, len: l };
            emit(&mut w, "patch", format!("delta: copy offset {off} len {l}"), &bincode::serialize(&d).unwrap(), true);
        }
        for bsz in [0u64, 1, u64::MAX] {
            let mut d = lib_delta.clone();
            d.basis_size = bsz;
            emit(&mut w, "patch", format!("delta: basis_size {bsz}"), &bincode::serialize(&d).unwrap(), false);
        }
        for ssz in [0u64, 1, u64::MAX, 1u64 << 40] {
            let mut d = lib_delta.clone();
            d.source_size = ssz;
            emit(&mut w, "patch", format!("delta: source_size {ssz}"), &bincode::serialize(&d).unwrap(), false);
        }
    }
    for _ in 0..60 { let mut v = d_bytes.clone(); let i = rng.gen_range(0..v.len()); v[i] ^= 1 << rng.gen_range(0..8); emit(&mut w, "patch", format!("delta bit flip at {i}"), &v, false); }
    for len in [0usize, 3, 100, 5000] { let v: Vec<u8> = (0..len).map(|_| rng.gen()).collect(); emit(&mut w, "patch", format!("delta garbage {len}"), &v, len < 28); }
    w.finish();
    let _ = std::fs::remove_dir_all(&dir);
}


/// args: n  -> JSON list of n small contents, ascending by BLAKE3, the smallest hash starting with a 0 nibble
fn cmd_gen_contents(args: &[String]) {
    let n: usize = args[0].parse().unwrap();
    let mut cands: Vec<(String, String)> = (0..400).map(|k| { let t = format!("version {k:04}\n"); (vlib_hex(blake3::hash(t.as_bytes()).as_bytes()), t) }).collect();
    cands.sort();
    // first: a hash with a leading zero nibble; then spread the rest over the range
    let mut out = vec![cands.iter().find(|c| c.0.starts_with('0') && !c.0.starts_with("00")).unwrap().clone()];
    let step = cands.len() / (n + 1);
    let start = cands.iter().position(|c| *c == out[0]).unwrap();
    for i in 1..n { out.push(cands[(start + i * step).min(cands.len() - 1)].clone()); }
    out.sort();
    println!("{}", serde_json::to_string(&out.iter().map(|(h, t)| json!({"hex": h, "text": t})).collect::<Vec<_>>()).unwrap());
}
fn vlib_hex(b: &[u8]) -> String { b.iter().map(|x| format!("{x:02x}")).collect() }
/// args: file...  -> blake3 hex of each file, one per line
fn cmd_b3(args: &[String]) {
    for f in args { println!("{}", vlib_hex(blake3::hash(&std::fs::read(f).unwrap_or_default()).as_bytes())); }
}

fn main() {
    std::panic::set_hook(Box::new(|_| {}));
    let args: Vec<String> = std::env::args().skip(1).collect();
    let rest = &args[1..];
    match args[0].as_str() {
        "rolling" => cmd_rolling(rest),
        "delta-cases" => cmd_delta_cases(rest),
        "delta-large" => cmd_delta_large(rest),
        "patch-cases" => cmd_patch_cases(rest),
        "patch-random" => cmd_patch_random(rest),
        "codec-cases" => cmd_codec_cases(rest),
        "gen-contents" => cmd_gen_contents(rest),
        "b3" => cmd_b3(rest),
        "codec-random" => cmd_codec_random(rest),
        x => { eprintln!("unknown subcommand {x}"); std::process::exit(2) }
    }
}
