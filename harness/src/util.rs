use std::io::{BufRead, Write};

/// Read ndjson lines from a file into serde_json values.
pub fn read_ndjson(path: &str) -> Vec<serde_json::Value> {
    let f = std::fs::File::open(path).unwrap_or_else(|e| panic!("open {path}: {e}"));
    std::io::BufReader::new(f)
        .lines()
        .map(|l| l.expect("read line"))
        .filter(|l| !l.trim().is_empty())
        .map(|l| serde_json::from_str(&l).unwrap_or_else(|e| panic!("bad json {l}: {e}")))
        .collect()
}

pub struct NdjsonWriter {
    w: std::io::BufWriter<std::fs::File>,
}
impl NdjsonWriter {
    pub fn create(path: &str) -> Self {
        Self { w: std::io::BufWriter::new(std::fs::File::create(path).unwrap_or_else(|e| panic!("create {path}: {e}"))) }
    }
    pub fn write(&mut self, v: &serde_json::Value) {
        serde_json::to_writer(&mut self.w, v).expect("write json");
        self.w.write_all(b"\n").expect("write nl");
    }
    pub fn finish(mut self) {
        self.w.flush().expect("flush");
    }
}

pub fn hex(b: &[u8]) -> String {
    b.iter().map(|x| format!("{x:02x}")).collect()
}
