//! Shared helpers for the verification harness binaries.
pub mod util;
