#!/bin/bash
# Run checks against a seeded change WITHOUT touching /repo: a private worktree of
# /repo (/tmp/mut/repo) plus a private copy of /verif (/tmp/mut/verif) whose harness
# points at that worktree.  Only a development aid; nothing in MANIFEST.json uses it.
#   tools/mutbox.sh <patch.diff|none> <Cxx> [Cxx...]      (tier from $TIER, default quick)
set -u
patch="$1"; shift
M=${MUTBOX:-/tmp/mut}
mkdir -p $M
if [ ! -d $M/repo/.git ] && [ ! -f $M/repo/.git ]; then
  git -C /repo worktree add -q --detach $M/repo HEAD || exit 2
fi
git -C $M/repo checkout -q --detach "$(git -C /repo rev-parse HEAD)" 2>/dev/null
git -C $M/repo checkout -q -- . ; git -C $M/repo clean -fdq -e target
mkdir -p $M/verif
rsync -a --delete --exclude .cache --exclude evidence --exclude replay --exclude .git /verif/ $M/verif/
mkdir -p $M/verif/evidence $M/verif/replay
grep -rl '/repo' $M/verif/harness --include='*.rs' --include='*.toml' | xargs -r sed -i "s#/repo#$M/repo#g"
if [ "$patch" != none ]; then git -C $M/repo apply "$patch" || { echo "patch does not apply"; exit 2; }; fi
cd $M/verif
rc=0
for c in "$@"; do
  VERIF_REPO=$M/repo ./check "$c" "${TIER:-quick}" > $M/$c.log 2>&1; e=$?
  echo "$c exit=$e $(grep -c '^VIOLATION' $M/$c.log) violation line(s)"
  grep -m 3 -B1 '^VIOLATION' $M/$c.log | cut -c1-300
  [ $e -ne 0 ] && rc=$e
done
git -C $M/repo checkout -q -- .
exit $rc
