import sys,os,subprocess
pid,avoid=sys.argv[1],sys.argv[2]
extra=sys.argv[3] if len(sys.argv)>3 else ""
os.system(f"rm -rf /tmp/seed/{pid}.prev; [ -d /tmp/seed/{pid} ] && mv /tmp/seed/{pid} /tmp/seed/{pid}.prev; mkdir -p /tmp/seed/{pid}; git -C /repo worktree remove --force /tmp/wt/{pid} 2>/dev/null; git -C /repo worktree add -q --detach /tmp/wt/{pid} HEAD")
t=open('/tmp/seed/PROMPT.tmpl').read()
t=t.replace('@WT@',f'/tmp/wt/{pid}').replace('@OUT@',f'/tmp/seed/{pid}').replace('@PROP@',open(f'/tmp/seed/{pid}.prop.txt').read())
t=t.replace("establish the baseline first","build the CLI binary first with `cargo build --offline --features cli -j 4` because the e2e tests spawn target/debug/copia, then establish the baseline")
t+=f"\n\nAdditional constraint: earlier experiments already used changes about: {avoid}. Choose a DIFFERENT mechanism and, if possible, a different clause of the property. The property is believed to hold on this tree, so the demo must pass on the unchanged tree.\n"
if extra: t+="\nHints: "+extra+"\n"
open(f'/tmp/seed/{pid}.prompt.txt','w').write(t)
print("ok",pid)
