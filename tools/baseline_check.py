#!/usr/bin/env python3
"""Run the repository's test suite (guard off = no flags at all) and compare with BASELINE.json:
every stable_pass test must pass.  Usage: baseline_check.py [repo_dir]"""
import json, re, subprocess, sys
repo = sys.argv[1] if len(sys.argv) > 1 else "/repo"
base = json.load(open("/root/.vp/BASELINE.json"))
p = subprocess.run(["cargo", "test", "--workspace", "--no-fail-fast", "--offline"], cwd=repo,
                   stdout=subprocess.PIPE, stderr=subprocess.STDOUT, text=True)
cur = None
passed, failed = set(), set()
for line in p.stdout.splitlines():
    m = re.match(r"\s*Running (?:unittests )?(\S+) \(", line)
    if m:
        src = m.group(1)
        if src == "src/lib.rs":
            cur = "copia"
        elif src.startswith("tests/"):
            cur = "copia::" + src[6:-3]
        elif src.startswith("src/bin/"):
            cur = "copia::bin/copia"
        else:
            cur = "copia::" + src
        continue
    m = re.match(r"test (\S+)(?: - should panic)? \.\.\. (ok|FAILED)", line)
    if m and cur:
        (passed if m.group(2) == "ok" else failed).add(f"{cur}::{m.group(1)}")
missing = [t for t in base["stable_pass"] if t not in passed]
print(f"passed={len(passed)} failed={len(failed)} baseline={len(base['stable_pass'])} missing_from_pass={len(missing)}")
for t in missing[:40]:
    print("  NOT PASSING:", t)
newfail = [t for t in failed if t not in base["always_fail"]]
for t in newfail[:40]:
    print("  NEW FAILURE:", t)
sys.exit(1 if missing else 0)
