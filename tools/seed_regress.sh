#!/bin/bash
# Re-run every kept seed (seeded/<name>/patch.diff) through tools/mutbox.sh against the property in its meta.json and
# report which are still detected.  Development aid; three boxes in parallel.   tools/seed_regress.sh [name-glob]
cd /verif
pat="${1:-*}"
out=/tmp/seedreg; mkdir -p $out; rm -f $out/*.res
ls -d seeded/$pat | grep -v NEUTRALISED > $out/list
n=0
for box in 1 2 3; do
  ( i=0; while read -r d; do i=$((i+1)); [ $(( i % 3 )) -eq $(( box % 3 )) ] || continue
      name=$(basename "$d"); prop=$(python3 -c "import json,sys;print(json.load(open('$d/meta.json'))['property'])")
      pf="/verif/$d/patch.diff"; [ -f "/verif/$d/patch.rebased.diff" ] && pf="/verif/$d/patch.rebased.diff"     # re-diffed after later fix: commits
      if ! git -C /repo apply --check "$pf" 2>/dev/null; then echo "$name $prop STALE-PATCH" >> $out/box$box.res; continue; fi
      MUTBOX=/tmp/mutr$box timeout 2400 tools/mutbox.sh "$pf" "$prop" > $out/$name.log 2>&1
      echo "$name $prop $(grep -m1 -E "^$prop exit=" $out/$name.log)" >> $out/box$box.res
    done < $out/list ) &
done
wait
cat $out/box*.res | sort
