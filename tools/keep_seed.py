#!/usr/bin/env python3
"""keep_seed.py <agent-id> <seeded-name> <property> <detected-by> <needs...>: copy a confirmed seeded change into /verif/seeded/."""
import json, os, shutil, subprocess, sys
aid, name, prop, detected = sys.argv[1:5]
needs = " ".join(sys.argv[5:])
src = f"/tmp/seed/{aid}"
dst = f"/verif/seeded/{name}"
os.makedirs(dst, exist_ok=True)
shutil.copy(f"{src}/patch.diff", f"{dst}/patch.diff")
if os.path.isdir(f"{src}/demo"):
    shutil.rmtree(f"{dst}/demo", ignore_errors=True)
    shutil.copytree(f"{src}/demo", f"{dst}/demo", ignore=shutil.ignore_patterns("target", "*.log"))
for f in ("NOTES.md",):
    if os.path.exists(f"{src}/{f}"):
        shutil.copy(f"{src}/{f}", f"{dst}/{f}")
verify = open(f"{src}/verify.log").read() if os.path.exists(f"{src}/verify.log") else ""
base = subprocess.run(["git", "-C", f"/tmp/wt/{aid}", "rev-parse", "--short", "HEAD"], capture_output=True, text=True).stdout.strip()
meta = {"property": prop, "made_against_commit": base, "needs_to_manifest": needs,
        "confirmed_by": "tools/verify_seed.sh in the sub-agent's scratch worktree: builds with --features cli; every BASELINE stable_pass test passes; "
                        "demo/run.sh exits non-zero with the change and 0 without",
        "verify_log": verify, "detected_by": detected}
json.dump(meta, open(f"{dst}/meta.json", "w"), indent=1)
print("kept", dst)
