#!/usr/bin/env python3
"""Single source of MANIFEST.json: per-check metadata lives here; run to regenerate + validate."""
import json
import os
import sys

HERE = os.path.dirname(os.path.dirname(os.path.abspath(__file__)))
ALL = [f"C{i:02d}" for i in range(1, 21)]

CHECKS = {
    "C18": dict(
        category="model_checking",
        text="TLC decides Rec (code-shaped transcription) = Table (documented) with symmetry / no-delete-without-base / "
             "renaming invariance on the complete quotient of (a,b,base) and the whole-tree loop on all 2-path maps; "
             "every enumerated case is then executed on the real reconcile.rs (compiled in unchanged) and compared; "
             "random 32-byte digests are validated back against the table by TLC. Exhaustive on the quotient, which is "
             "the right level for a finite decision table.",
        design_ref="5 (C18)", technique="TLA+ case analysis (TLC exhaustive) + spec->code replay of every case + code->spec trace validation",
        note="trusts: #[path] inclusion compiles the same reconcile.rs the CLI uses; BLAKE3 digests only enter by equality",
        engine="E"),
}

CHECKS["C17"] = dict(
    category="model_checking",
    text="TLC checks both rolling-checksum register machines (plain with register width W, fast with lazy reduction) against "
         "the definition exhaustively at small moduli where every borrow/wrap is reachable; every enumerated behaviour is "
         "replayed on both real types (literal and replicated up to 65535-byte windows), and seeded long runs (>5000 / >10000 "
         "slides, 0xFF data, windows to 65536) are recorded; TLC validates every recorded operation against the definition "
         "at M=65521. Exhaustive in the small model, sampled at real sizes - the level the arithmetic allows (TLC integers "
         "are 32-bit).",
    design_ref="5 (C17), 4.1", technique="TLA+ register-machine model (TLC exhaustive, small moduli) + behaviour replay + trace validation at real constants",
    note="observation through the public API (digest, len, sum_a, sum_b); definition evaluated by TLC with modular folds",
    engine="E")
CHECKS["C19"] = dict(
    category="model_checking",
    text="TLC checks the code-shaped matcher / exclude rule / planner loops / listing parser against their declarative "
         "definitions on complete bounded domains (all patterns x texts to length 3/4 over {a,b,*,?,.,/}; all src/dst maps on "
         "3 paths; all listings of <=2 records incl. tabs/newlines/dots); every case is executed on the real functions and "
         "compared; seeded larger cases are validated back by TLC.",
    design_ref="5 (C19), 4.3", technique="TLA+ case analysis (TLC exhaustive) + spec->code replay of every case + code->spec trace validation",
    note="plan.rs / meta.rs compiled in unchanged via #[path]; sortedness is PathBuf order (A11)",
    engine="E")

_DELTA_TEXT = ("TLC checks the scan / patch / textbook-greedy machines on every (basis, source) symbol string up to length 3/4 over "
               "symbol classes (random, high-sum, weak-colliding pair) x symbols-per-block; each case is expanded to real bytes for "
               "real block sizes and executed on CopiaSync, AsyncCopiaSync, the CLI file chain and `copia sync` (Conform: real ops = "
               "spec ops scaled; Monitor: the property's clauses); large seeded cases with an independent match map are decided by "
               "DeltaTrace.tla. Exhaustive on the symbol scope, sampled at real sizes.")
CHECKS["C01"] = dict(category="model_checking", text=_DELTA_TEXT, design_ref="5 (C01), 4.2",
    technique="TLA+ scan/patch machines (TLC exhaustive on symbol strings) + symbol-expansion replay into both engines and the CLI + trace validation over an independent match map",
    note="BLAKE3 treated as injective; byte equality observed by the harness; symbol expansion assumes random chunks do not align by chance",
    engine="E")
CHECKS["C16"] = dict(category="model_checking", text=_DELTA_TEXT + " C16 clause: literal bytes <= textbook greedy (exactly equal in the model), identical => < 1 block, k-byte edit => <= k + 2 blocks.",
    design_ref="5 (C16), 4.2",
    technique="TLA+ greedy definition vs scan machine (TLC) + replay at all block sizes incl. high-sum blocks + trace validation of real deltas against greedy over an independent match map",
    note="the independent match map is computed by the harness with its own rolling hash + byte comparison", engine="E")
CHECKS["C05"] = dict(category="model_checking",
    text="TLC enumerates every single corruption of every valid (basis, delta) of a small scope through the patch machine; each case is "
         "executed on both engines and `copia patch` (Conform: outcome class; Monitor: success only if BLAKE3(written bytes) = "
         "delta.checksum, no panic/signal, CLI exit in {0,1}); seeded multi-corruptions at byte level are decided by PatchTrace.tla.",
    design_ref="5 (C05)", technique="TLA+ patch machine with corruption actions (TLC) + replay into both engines and the CLI + trace validation of random corruptions",
    note="debug assertions and overflow checks on in the harness; BLAKE3 recomputed with the blake3 crate", engine="E")

CHECKS["C20"] = dict(category="model_checking",
    text="TLC checks the header law on boundary numbers and the reader machine over every combination of header field classes, "
         "length/payload classes, cut points and message kinds; each case is rendered with a real encoded payload and decoded by "
         "Codec::read_message / FrameHeader::decode / Message::decode under catch_unwind and a counting allocator; seeded round "
         "trips (several messages per stream, CLI files) and every single-field corruption of CLI signature/delta files run "
         "through `copia delta|patch` under RLIMIT_AS and a timeout are decided by CodecTrace.tla.",
    design_ref="5 (C20), 4.7", technique="TLA+ reader machine + header law (TLC exhaustive over field classes) + replay into the real decoders + trace validation of round trips and CLI outcomes",
    note="payload fidelity is the identity law only; memory clause by counting allocator (library) and RLIMIT_AS 1 GiB (CLI)", engine="E")

_BISYNC_TEXT = ("TLC model-checks the bisync machine (user edits, archive faults, runs; RunResult as a fold that mutates (a, b, common) "
                "like `apply`) with the listed properties as invariants; the harness explores the IMPLEMENTATION's own transition graph "
                "over the same universe with the real `copia bisync` (restoring states on disk incl. the archive bytes the code wrote) "
                "and TLC validates every edge: Conform (= RunResult; the graphs coincide state for state) and Monitor (property formulas "
                "on the observed pair). Closed graph => the exhaustive verdict transfers to the code for every history over the universe.")
CHECKS["C02"] = dict(category="model_checking", text=_BISYNC_TEXT + " C02: NoLoss with ghost `last`.", design_ref="5 (C02), 4.5",
    technique="TLA+ state machine (TLC exhaustive) + implementation-graph exploration of the real CLI with per-edge refinement and property monitoring by TLC",
    note="universe: 1 base path, conflict names to depth 2 (+ -1 suffix), 2 contents; pair id in restored archives substituted per worker", engine="G")
CHECKS["C06"] = dict(category="model_checking", text=_BISYNC_TEXT + " C06: Converged, archive = tree, idempotence on observed fixpoints, ConflictShape, and a seeded share of edges re-executed with re-drawn mtimes and with the roots named in the other order.", design_ref="5 (C06), 4.5, A3",
    technique="TLA+ state machine (TLC exhaustive) + implementation-graph exploration with per-edge refinement, plus differential re-execution under mtime / argument-order changes",
    note="as C02; content 1's BLAKE3 has a leading 0 nibble so that name formatting is exercised", engine="G")
CHECKS["C07"] = dict(category="model_checking", text=_BISYNC_TEXT + " C07: every concrete fault kind (absent, zero-length, truncation points, garbage, wrong shape, format_version 0/2, foreign pair, other-order archive copied in, only .bak/.tmp) injected on reachable trusted states; NoBaseNoDelete on the observed pair and equality with RunResult(untrusted).", design_ref="5 (C07)",
    technique="TLA+ ArchiveFault action + NoBaseNoDelete invariant (TLC) + fault injection on the real archive file for reachable states, edges validated by TLC",
    note="as C02; faults applied to the archive file the real code wrote", engine="G")

CHECKS["C08"] = dict(category="fault_enumeration",
    text="TLC model-checks bisync at the granularity of its mutating libc calls with a crash before any of them and recovery "
         "(invariants Atomic, RecordNotAhead incl. the fsync ordering clause, ArchiveWhole, RefinesRun, RecoveryOK); the real binary is "
         "killed before its k-th mutating call for every k = 1..N of every scenario class (LD_PRELOAD shim), snapshots after the kill "
         "and after recovery; TLC replays the logged calls through the model's Exec, checks the invariants at every replayed state and "
         "decides the clauses on the observed snapshots. Exhaustive in k per scenario.",
    design_ref="5 (C08), 4.5, A4", technique="TLA+ crash model (TLC) + kill-at-k fault enumeration on the real binary + trace validation of the libc call log and snapshots",
    note="process kill keeps completed syscalls; durability = presence and order of fsync calls; shim interposes libc (Rust std reaches the kernel through it)", engine="S")
CHECKS["C15"] = dict(category="model_checking",
    text="A: Glob.tla / PlanSpec.tla exhaustively (pattern semantics, excludes never transferred or deleted, no delete without --delete) "
         "with replay into the real matcher/planner; B: bisync --dry-run on every state of the implementation graph (byte+mtime "
         "snapshot equal, printed plan = spec plan = what the real run does); C: sync -r edges of the one-way graph with exclude / "
         "delete / dry-run flags.",
    design_ref="5 (C15)", technique="TLA+ case analysis + implementation-graph exploration with TLC edge validation (dry-run and flag clauses)",
    note="shares machinery with C19, C02 and C04", engine="G")

_OW_TEXT = ("TLC checks the one-way run (plan + effect) over all source/destination trees of a small universe x exclude lists x --delete "
            "x --dry-run; every case is materialised and executed with the real `copia sync -r` (local, push and pull through the ssh "
            "stand-in) and followed by a second run; seeded cases cover hostile names, mtimes 0..2^33 with sub-second parts, jobs 1/2/8 and "
            "induced failures; TLC validates every edge (Conform = RunDst + plan sizes; Monitor = C04 / C14 / C15 formulas).")
CHECKS["C04"] = dict(category="model_checking", text=_OW_TEXT, design_ref="5 (C04), 4.4",
    technique="TLA+ run model (TLC exhaustive on a small universe) + execution of every case on the real CLI in three directions + TLC edge validation",
    note="remote directions through the bash/GNU ssh stand-in; comparison at bytes + whole-second mtime, exact ns for untouched files", engine="G")
CHECKS["C14"] = dict(category="model_checking", text=_OW_TEXT + " C14: SecondRunEmpty in the model; every successful real run is immediately repeated: plan 0/0, both trees byte- and ns-mtime-identical, and the first run's 'sent' count equals |Transfer|.", design_ref="5 (C14)",
    technique="TLA+ run model + immediate second real run per edge + TLC edge validation",
    note="mtime pool: 0, 1, sub-second .999999999, 2^31-1, 2^31, 2^32+1, 2^33", engine="G")

CHECKS["C09"] = dict(category="fault_enumeration",
    text="TLC model-checks the three delivery pipelines at the granularity of the copia process's write calls (up to Jobs in flight, "
         "crash before any call, the push direction's remote shell as a surviving process, rerun); the real binary is killed before "
         "its k-th file-system / pipe write call for the explored k of every scenario in every direction (LD_PRELOAD shim), orphaned "
         "remote shells are waited for, the destination is snapshotted and the command re-run; TLC decides each record "
         "(old-or-new bytes only, unplanned paths untouched, rerun = uninterrupted result; local/pull snapshots conform to the logged calls).",
    design_ref="5 (C09), 4.4", technique="TLA+ crash model with a surviving remote process (TLC) + kill-at-k fault enumeration on the real binary in three directions + TLC record validation",
    note="quick explores <= 40 evenly spread k (+ first/last 6) per scenario, thorough every k; ssh stand-in = bash", engine="S")

_HUB_TEXT = ("TLC model-checks N `copia serve` processes at the granularity of libc calls on shared objects (names -> inodes -> chunks, "
             "commit lock, kill), refinement of the atomic CAS map checked at every step; every complete model behaviour's server order is "
             "replayed on real server processes under a deterministic scheduler (LD_PRELOAD shim: each tracked call blocks until granted; "
             "Conform: final tree = the behaviour's), plus seeded random orders, kills, 3 servers, List, bad/short Puts and an adversarial "
             "corpus; the tree is snapshotted byte-exactly after every visible step; TLC searches a linearization of the atomic map for "
             "every recorded history.")
CHECKS["C03"] = dict(category="model_checking", text=_HUB_TEXT + " C03: every history must be linearizable with exactly the observed replies and final tree.", design_ref="5 (C03), 4.6, A7",
    technique="TLA+ refinement model (TLC) + replay of model schedules on real processes under a deterministic libc-level scheduler + linearizability checking of recorded histories by TLC",
    note="known finding H12 (List not atomic) is matched by 'accepted once List replies are unconstrained'; everything else is reported", engine="S")
CHECKS["C10"] = dict(category="model_checking", text=_HUB_TEXT + " C10: Complete on every per-step snapshot and on the final tree, Get body = announced length and hash, bad / short Puts change nothing.", design_ref="5 (C10), 4.6, A8",
    technique="TLA+ refinement model with kill (TLC) + deterministic scheduling of real server processes with a byte-exact snapshot after every step",
    note="content classes by byte comparison with the known complete contents (A8)", engine="S")

CHECKS["C11"] = dict(category="model_checking",
    text="TLC checks the guard (Refused) against the kernel's walk of ROOT/<path> - also for the staging and conflict-copy siblings - on every "
         "path of <= 4 components over {'', '.', '..', name, '..name', 'name..', '...', long} with/without a leading slash; each path is sent "
         "as Get, Put (with content) and Delete to a real server whose every file call is logged by the shim (roots '/'); TLC decides "
         "each record: no successful call outside ROOT, sentinels unchanged, refused paths answer 'bad path', create nothing and leave the "
         "probe replies equal to a fresh session's; refused-set conformance.",
    design_ref="5 (C11), A6", technique="TLA+ path-walk model (TLC exhaustive over component sequences) + replay of every path into a real server under a logging libc shim + TLC record validation",
    note="effect-based (A6); served tree without symlinks; start-up calls whitelisted by calibration", engine="S")
CHECKS["C12"] = dict(category="model_checking",
    text="TLC enumerates every session of <= 3 pieces over 4 prologue classes x 22 piece classes with the predicted replies, exit status and "
         "final tree; sessions are rendered to bytes and fed to a real server under RLIMIT_AS and a timeout (oversize/huge/deep pieces under "
         "strace: no anonymous mapping above the 1 MiB bound beyond a calibration session), also cut at random points and byte-mutated; "
         "TLC decides each record (Conform = prediction; Monitor = exit 0/1, no signal/hang, no effect before a valid request, in step).",
    design_ref="5 (C12), 4.6", technique="TLA+ byte-stream session machine (TLC exhaustive over piece classes) + replay into a real server + TLC record validation",
    note="memory clause by observation (RLIMIT_AS, strace of mmap sizes vs calibration); error texts compared only for conformance", engine="E")

CHECKS["C13"] = dict(category="model_checking",
    text="TLC model-checks two hub-sync clients (List, then CAS-Puts in path order) interleaved between requests, the success / failure / "
         "second-run clauses evaluated when a run finishes; seeded histories of real `copia hub-sync` runs by two clients (local-path and "
         "host:root targets, hostile names incl. a '.copia*' dot-file, empty and multi-buffer files), each followed by a second run; the "
         "stale-listing window forced by parking client A's server at its first staging open (scheduling shim) while client B syncs; "
         "TLC decides each record (Conform = the run semantics; Monitor = the property's clauses).",
    design_ref="5 (C13), 4.6", technique="TLA+ client/hub interleaving model (TLC) + real hub-sync histories and shim-forced stale-listing races validated by TLC",
    note="the hub's per-request atomicity is C03's subject; host targets through the ssh stand-in", engine="G")

# what the seeded-change rounds added to each check's inputs (DESIGN.md 12.5 / 12.6)
_BISYNC = ("link universe (one version materialised as a symbolic link), long histories with links and scripted 'file becomes a directory' "
           "histories, pair scenarios (adversarially close names, relative spelling of a missing root, symlinked root re-pointed, "
           "BLAKE3 tie between a file and a link with the roots swapped), two versions whose digests share their first 48 bits, archive faults incl. missing version / pair members, "
           "malformed entries a valid document followed by trailing bytes, a stale archive of the same roots in the other order, and a dry run on every damaged archive")
_ONEWAY = ("file/directory clashes both ways, destination-only directories with excluded files, leftover staging files, a missing "
           "destination root, a name that is not UTF-8, mtimes before 1970 and in the future, symlinked source files, directed "
           "'?' cases against multi-byte names, an induced transport failure at the remote delete, a dangling link and a link loop in source and/or destination; hard-linked destination names; names that contain the staging suffix without ending in it; a source or destination root that is a symbolic link; verdicts never rest on printed "
           "counters when they cannot be read (inode-aware snapshots); exclude patterns that match the roots' own directory names; a successful real run must perform exactly the deletes / sends the dry run lists; a user's own files whose names end in the staging suffix")
_HUB = ("model programs writeback / delwb / casrace3 (three servers), alias spellings of one file, seeded request programs under "
        "random and sequential orders, corpus programs putdir / putunder / confname (a client writing to a conflict-copy's name) / emptyloser (an empty write that loses its CAS) / confkeep (a client-owned file at a conflict-copy's name) / baddir (a refused Put into a new directory) / getempty (a fetch while the file is replaced by the empty version; reads of the live file scheduled) / lockfile / list_race / lock_identity, contents that end in zero "
        "bytes or are exactly one 256 KiB block, truncated reply streams recorded as short answers, mismatched-Put sessions; model behaviours replayed by action label (server, pc) with every reply compared to the model's")
ADDENDA = {
    "C02": _BISYNC, "C06": _BISYNC,
    "C07": _BISYNC + "; two pairs whose root strings concatenate to the same text under fourteen separators (pair_concat)",
    "C04": _ONEWAY, "C14": _ONEWAY, "C15": _ONEWAY + "; for bisync: " + _BISYNC,
    "C03": _HUB, "C10": _HUB,
    "C01": "signature and delta recomputed over short reads (sizes that are no multiple of the block size), both engines; block sizes 1, 2, 3, 5 at library level (signatures from Signature::generate)",
    "C05": "bases ending in zero bytes cut inside the run; an uncorrupted pair with one literal of 3 MiB through both engines and the CLI; the CLI's output path holds, in turn, nothing / an older longer file / an older shorter file; five valid pairs patched onto /dev/full must not exit 0 (H28)",
    "C08": "five scenarios whose versions are symbolic links (every kill point, judged against the uninterrupted run); a stale, longer file at the archive's staging name; the recorded state after the completed re-run is judged too; all 810 (A, B, archive) instances over two paths x two contents in thorough (a seeded 60 in quick), every kill point each",
    "C09": "two multi-chunk files whose names differ in one non-UTF-8 byte, two jobs; a file in flight that replaces one of the same size; a source that shrinks between the killed run and the re-run; a 200 000-byte file (between one pipe write and one transfer chunk) in every direction; conformance tolerant of one unlogged call per thread with several jobs",
    "C11": "names that a cleaning step would turn into '..' or an absolute path (NUL, blanks, line ends, per-cent escapes, full-width dots); very long refused paths (plain, control characters, backslashes, 2/3/4-byte characters at every alignment), names that contain backslashes and dots; 'refused' is recognised by effect, not by the reply's wording; the hub's stderr is a read pipe / a full device / a pipe without reader",
    "C12": "a Get whose request frame is exactly the 1 MiB bound or up to 40 bytes less (the reply must still fit); frames longer than their CBOR item (zero filler, a complete request as filler), such frames closed inside the filler, a Put under a path that is a file (request fails, session goes on), a Hello naming another version, an empty Put with a wrong hash, refused paths of multi-byte characters, staging files of dead servers in the served tree, a Put longer than its input; time-outs are re-checked with a longer limit before they count",
    "C13": "stale-listing windows in which the listed version is replaced by one of the same length within the same second; a name that sorts before a directory's entries as a string and after them as a path, names with a backslash, a non-UTF-8 name (unsendable trees), a file named like another name's directory (blocked runs), a hub root containing colons, scripted clash histories and scripted stale-listing windows with a file/directory clash or an empty losing file, a scripted history with a client-owned file named like a conflict-copy (known finding H26 for the clashing file only); run-failed labels are reports, not alarms; the check refuses to pass when no race could be produced",
    "C16": "deltas against signatures built from short reads held to the greedy bound too; a zero block and a block tuned to byte sum m*65521, each reached by sliding; multi-MiB sources whose matches all sit off the block grid; first matches just before and just after a normalisation point; a 24 MiB run of new data before a known tail (thorough); engine / signature block-size mismatch at the library level",
    "C17": "marathons over data swinging between long runs of low and high bytes; 5003 consecutive slides at windows 65536 / 65535 / 56000 / 32768; marathon runs of 26-70 million consecutive slides judged at checkpoints by RollingTrace!New",
    "C18": "name sets whose byte order differs from their path order, and one of names that look like staging files, conflict-copies and dot-files, one where each path is an ancestor of the next; tree results compared as sets",
    "C19": "as C18 for the planner; listing timestamps at .999999999 and before 1970 (negative whole seconds with a fraction)",
    "C20": "a declared payload length of exactly 16 MiB (class max0, payload materialised); every case also decoded through short reads; hostile copy offsets, block sizes valid in their low half only; 'malformed beyond argument => exit 1' is a Monitor clause",
}

NOT_BUILT = "check not built yet in this round (planned in DESIGN.md section 5)"


def main():
    checks = []
    for pid in ALL:
        if pid not in CHECKS:
            continue
        c = CHECKS[pid]
        checks.append({
            "property_id": pid,
            "quick_cmd": f"./check {pid} quick",
            "thorough_cmd": f"./check {pid} thorough",
            "evidence_file": f"/verif/evidence/{pid}.json",
            "replay_cmd_template": f"./check {pid} --replay {{path}}",
            "engine": c["engine"],
            "level_claimed": {"category": c["category"], "text": c["text"], "design_ref": c["design_ref"]},
            "level_note": c["note"] + (" | inputs added after the seeded-change rounds: " + ADDENDA[pid] if pid in ADDENDA else ""),
            "technique": c["technique"],
        })
    na = [{"property_id": p, "reason": NOT_BUILT} for p in ALL if p not in CHECKS]
    m = {
        "version": 1,
        "setup_cmd": "./setup.sh",
        "hooks": {
            "guard": "none (no source hooks: observation is by LD_PRELOAD shim, the CLI, and #[path] inclusion of unchanged sources)",
            "enable": "not needed; checks build /repo's working tree as is (cargo build --features cli, dev profile) into /verif/.cache",
            "baseline_off_cmd": "cd /repo && cargo test --workspace --no-fail-fast --offline",
            "source_commits": [],
            "add_only": True,
        },
        "engines": [
            {"name": "S", "path": "/verif/shim/copia_shim.c + /verif/lib/bisync_crash.py, oneway*.py, hub*.py",
             "serves_properties": ["C08", "C09", "C03", "C10", "C11"],
             "kind_free_text": "LD_PRELOAD shim: log / kill-at-k / deterministic scheduling of the unmodified binary; traces validated by TLC"},
            {"name": "G", "path": "/verif/spec/Bisync*.tla + /verif/lib/bisync_graph.py",
             "serves_properties": ["C02", "C06", "C07", "C15"],
             "kind_free_text": "implementation transition graph explored with the real CLI; edges validated by TLC (Conform + Monitor)"},
            {"name": "E", "path": "/verif/spec + /verif/harness/src/bin/vh_plan.rs, vh_lib.rs",
             "serves_properties": ["C01", "C05", "C16", "C17", "C18", "C19", "C20"],
             "kind_free_text": "TLC-enumerated case analysis replayed into the real functions; recorded results validated by TLC trace specs"},
        ],
        "checks": checks,
        "not_applicable": na,
        "notes": "Every check: ./check <id> quick|thorough. Exit 0 ok, 1 with VIOLATION line, 2 tool trouble. See DESIGN.md.",
    }
    path = os.path.join(HERE, "MANIFEST.json")
    with open(path, "w") as f:
        json.dump(m, f, indent=1)
    try:
        import jsonschema
        jsonschema.validate(m, json.load(open("/root/.vp/MANIFEST.schema.json")))
        print("MANIFEST.json valid;", len(checks), "checks,", len(na), "not claimed")
    except ImportError:
        print("written (jsonschema not importable here)")


if __name__ == "__main__":
    main()
