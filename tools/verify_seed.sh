#!/bin/sh
# verify_seed.sh <id> [worktree]: confirm a sub-agent's seeded change in its scratch worktree:
#  compiles, the baseline's passing tests still pass, demo fails with the change and passes without.
id=$1; wt=${2:-/tmp/wt/$id}; out=/tmp/seed/$id
cd $wt || exit 2
{
echo "== applied diff matches patch.diff?"; git diff > /tmp/seed/$id/.cur.diff; cmp -s /tmp/seed/$id/.cur.diff $out/patch.diff && echo same || echo "DIFFERS (using worktree state)"
echo "== build"; cargo build --offline --features cli -j 6 2>&1 | tail -1
echo "== tests (changed tree)"; python3 /verif/tools/baseline_check.py $wt
echo "== demo on changed tree (expect non-zero)"; bash $out/demo/run.sh $wt >/tmp/seed/$id/.demo_changed.log 2>&1; echo "exit=$?"
git diff > /tmp/seed/$id/.wt.diff; git checkout -q -- .
echo "== demo on unchanged tree (expect 0)"; bash $out/demo/run.sh $wt >/tmp/seed/$id/.demo_unchanged.log 2>&1; echo "exit=$?"
git apply /tmp/seed/$id/.wt.diff
echo "== done"
} > $out/verify.log 2>&1
