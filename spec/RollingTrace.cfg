SPECIFICATION Spec
INVARIANTS Audit Report
CHECK_DEADLOCK FALSE
