------------------------------ MODULE PlanDefs ------------------------------
(* Set definitions of the one-way plan (property C19), shared by PlanSpec (the code's   *)
(* loops), PlanTrace and OneWay.  Names[p] gives the components of path p; metas are     *)
(* <<size, mtime-seconds>> or None.                                                      *)
EXTENDS GlobDefs

CONSTANTS N, Names

None == <<>>

Needs(s, d) == d = None \/ s[1] # d[1] \/ s[2] # d[2]

Excl(p, pats) == ExcludedAlg(Names[p], pats)

(* ---- set definitions ---- *)
RECURSIVE Asc(_)
Asc(S) == IF S = {} THEN <<>> ELSE LET m == CHOOSE x \in S : \A y \in S : x <= y IN <<m>> \o Asc(S \ {m})

TransferDef(src, dst, pats) == {p \in 1..N : src[p] # None /\ ~ExcludedDef(Names[p], pats) /\ Needs(src[p], dst[p])}
SkippedDef(src, dst, pats)  == Cardinality({p \in 1..N : src[p] # None /\ ~ExcludedDef(Names[p], pats) /\ ~Needs(src[p], dst[p])})
DeleteDef(src, dst, pats, del) ==
  IF del THEN {p \in 1..N : dst[p] # None /\ src[p] = None /\ ~ExcludedDef(Names[p], pats)} ELSE {}

=============================================================================
