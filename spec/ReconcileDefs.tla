---------------------------- MODULE ReconcileDefs ----------------------------
(* Constant-free part of the reconcile specification: the code-shaped decision (Rec), *)
(* the documented table (Table) and the mirror map.  Shared by Reconcile (TLC search), *)
(* ReconcileTrace (validation of recorded results of the real reconcile_path) and      *)
(* Bisync (the run model).                                                             *)
EXTENDS Naturals, Sequences, FiniteSets
None == [d |-> 0, t |-> "none"]

Same(x, y) == x.d = y.d /\ x.t = y.t

Actions == {"Noop", "PropagateAtoB", "PropagateBtoA", "ConvergeIdentical",
            "DeleteA", "DeleteB", "ConflictBothChanged", "ConflictDeleteVsModify"}

(* ---- the code: reconcile_path, same branch order ---- *)
Rec(a, b, z) ==
  IF a = None /\ b = None THEN "Noop"
  ELSE IF a # None /\ b # None THEN
    IF Same(a, b)
      THEN IF z # None /\ Same(a, z) THEN "Noop" ELSE "ConvergeIdentical"
      ELSE LET ac == (z = None) \/ ~Same(a, z)
               bc == (z = None) \/ ~Same(b, z)
           IN IF ac /\ ~bc THEN "PropagateAtoB"
              ELSE IF ~ac /\ bc THEN "PropagateBtoA"
              ELSE "ConflictBothChanged"
  ELSE IF b = None THEN
    IF z = None THEN "PropagateAtoB"
    ELSE IF Same(a, z) THEN "DeleteA" ELSE "ConflictDeleteVsModify"
  ELSE
    IF z = None THEN "PropagateBtoA"
    ELSE IF Same(b, z) THEN "DeleteB" ELSE "ConflictDeleteVsModify"

(* ---- the documented table ---- *)
Table(a, b, z) ==
  CASE a = None /\ b = None                 -> "Noop"
    [] a # None /\ b # None /\ a = b /\ z = a  -> "Noop"
    [] a # None /\ b # None /\ a = b /\ z # a  -> "ConvergeIdentical"
    [] a # None /\ b # None /\ a # b /\ a # z /\ b = z -> "PropagateAtoB"
    [] a # None /\ b # None /\ a # b /\ a = z /\ b # z -> "PropagateBtoA"
    [] a # None /\ b # None /\ a # b /\ a # z /\ b # z -> "ConflictBothChanged"
    [] a # None /\ b = None /\ z = None     -> "PropagateAtoB"
    [] a # None /\ b = None /\ z = a        -> "DeleteA"
    [] a # None /\ b = None /\ z # None /\ z # a -> "ConflictDeleteVsModify"
    [] a = None /\ b # None /\ z = None     -> "PropagateBtoA"
    [] a = None /\ b # None /\ z = b        -> "DeleteB"
    [] a = None /\ b # None /\ z # None /\ z # b -> "ConflictDeleteVsModify"

Mirror(act) ==
  CASE act = "PropagateAtoB" -> "PropagateBtoA"
    [] act = "PropagateBtoA" -> "PropagateAtoB"
    [] act = "DeleteA" -> "DeleteB"
    [] act = "DeleteB" -> "DeleteA"
    [] OTHER -> act

=============================================================================
