----------------------------- MODULE PatchCorrupt -----------------------------
(* C05: patch under corruption.  For every valid (basis, delta) of a small scope and     *)
(* every single corruption from the property's list, the patch machine of DeltaDefs      *)
(* yields an outcome class; "Ok" only if the produced symbols equal the checksum's.      *)
(* Each case is emitted with the corrupted inputs and the predicted class per engine      *)
(* (the sync engine checks sum-of-op-lengths = source_size first since fix 3).            *)
EXTENDS DeltaDefs
CONSTANT Bs

Other(s) == CHOOSE t \in Sym : t # s

SetAt(seq, i, v) == [seq EXCEPT ![i] = v]
DropAt(seq, i) == SubSeq(seq, 1, i - 1) \o SubSeq(seq, i + 1, Len(seq))
DupAt(seq, i) == SubSeq(seq, 1, i) \o SubSeq(seq, i, Len(seq))
SwapAt(seq, i) == [seq EXCEPT ![i] = seq[i + 1], ![i + 1] = seq[i]]

\* corruption descriptors
BasisCorrs(b) ==
     {[k |-> "basis_trunc", n |-> n] : n \in 1..Len(b)}
  \cup {[k |-> "basis_ext"]}
  \cup {[k |-> "basis_flip", i |-> i] : i \in 1..Len(b)}
  \cup {[k |-> "basis_empty"]}
DeltaCorrs(d) ==
     {[k |-> "copy_off", i |-> i, v |-> v] : i \in {j \in 1..Len(d.ops) : d.ops[j].t = "C"}, v \in {-1, 1, 7}}
  \cup {[k |-> "copy_len", i |-> i, v |-> v] : i \in {j \in 1..Len(d.ops) : d.ops[j].t = "C"}, v \in {-1, 1, 7}}
  \cup {[k |-> "drop", i |-> i] : i \in 1..Len(d.ops)}
  \cup {[k |-> "dup", i |-> i] : i \in 1..Len(d.ops)}
  \cup {[k |-> "swap", i |-> i] : i \in 1..(Len(d.ops) - 1)}
  \cup {[k |-> "lit_edit", i |-> i, j |-> j] : i \in {x \in 1..Len(d.ops) : d.ops[x].t = "L"}, j \in {1}}
  \cup {[k |-> "ssize", v |-> v] : v \in {-1, 1}}
  \cup {[k |-> "ssize_set", v |-> v] : v \in {0, 1}}                 \* declared source size far below what the ops produce
  \cup {[k |-> "bsize", v |-> v] : v \in {-1, 1, 9}}
  \cup {[k |-> "blocksize", v |-> v] : v \in {0, 1000, 4096}}
  \cup {[k |-> "csum"]}
  \cup {[k |-> "none"]}

NatOr0(x) == IF x < 0 THEN 0 ELSE x

ApplyB(b, c) ==
  CASE c.k = "basis_trunc" -> SubSeq(b, 1, Len(b) - c.n)
    [] c.k = "basis_ext"   -> Append(b, CHOOSE t \in Sym : TRUE)
    [] c.k = "basis_flip"  -> SetAt(b, c.i, Other(b[c.i]))
    [] c.k = "basis_empty" -> <<>>
    [] OTHER -> b

ApplyD(d, c) ==
  CASE c.k = "copy_off" -> [d EXCEPT !.ops[c.i].off = NatOr0(@ + c.v)]
    [] c.k = "copy_len" -> [d EXCEPT !.ops[c.i].len = NatOr0(@ + c.v)]
    [] c.k = "drop"     -> [d EXCEPT !.ops = DropAt(@, c.i)]
    [] c.k = "dup"      -> [d EXCEPT !.ops = DupAt(@, c.i)]
    [] c.k = "swap"     -> [d EXCEPT !.ops = SwapAt(@, c.i)]
    [] c.k = "lit_edit" -> [d EXCEPT !.ops[c.i].data[c.j] = Other(@)]
    [] c.k = "ssize"    -> [d EXCEPT !.ssize = NatOr0(@ + c.v)]
    [] c.k = "ssize_set" -> [d EXCEPT !.ssize = c.v]
    [] c.k = "bsize"    -> [d EXCEPT !.bsize = NatOr0(@ + c.v)]
    [] c.k = "csum"     -> [d EXCEPT !.csum = Append(@, CHOOSE t \in Sym : TRUE)]
    [] OTHER -> d

OutLen(ops) == LitLen(ops) + CopyLen(ops)
\* the sync engine refuses a delta whose op lengths do not sum to source_size before anything else
SyncClass(b, d) == IF OutLen(d.ops) # d.ssize THEN "CorruptedDelta" ELSE Patch(b, d).class
AsyncClass(b, d) == Patch(b, d).class

VARIABLES basis, source, B, corr, phase
vars == <<basis, source, B, corr, phase>>

Init == /\ basis \in Strs /\ source \in Strs /\ B \in Bs
        /\ corr \in BasisCorrs(basis) \cup DeltaCorrs(MkDelta(basis, source, B))
        /\ phase = "new"
Next == phase = "new" /\ phase' = "checked" /\ UNCHANGED <<basis, source, B, corr>>
Spec == Init /\ [][Next]_vars

B2 == ApplyB(basis, corr)
D2 == ApplyD(MkDelta(basis, source, B), corr)

\* C05 on the model: success only on the bytes the checksum describes; an uncorrupted pair succeeds
Safe == /\ Patch(B2, D2).class = "Ok" => Patch(B2, D2).out = D2.csum
        /\ SyncClass(B2, D2) = "Ok" => Patch(B2, D2).out = D2.csum
        /\ corr.k = "none" => Patch(B2, D2).class = "Ok" /\ SyncClass(B2, D2) = "Ok"
        /\ corr.k = "blocksize" => Patch(B2, D2).class = "Ok"

OpJ(o) == IF o.t = "C" THEN [t |-> "C", off |-> o.off, len |-> o.len] ELSE [t |-> "L", data |-> o.data]
Emit == phase = "checked" =>
  PrintT(<<"CASE", ToJson([basis |-> B2, B |-> B, corr |-> corr,
                           ops |-> [i \in 1..Len(D2.ops) |-> OpJ(D2.ops[i])],
                           ssize |-> D2.ssize, bsize |-> D2.bsize, csum |-> D2.csum,
                           blocksize |-> IF corr.k = "blocksize" THEN corr.v ELSE -1,
                           sync |-> SyncClass(B2, D2), async |-> AsyncClass(B2, D2)])>>)
=============================================================================
