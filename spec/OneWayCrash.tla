---------------------------- MODULE OneWayCrash ----------------------------
(* Delivery of the planned files of `copia sync -r` at the granularity of the copia          *)
(* process's file-system / pipe write calls, with a crash (SIGKILL of copia) before any of     *)
(* them (C09).  Up to Jobs deliveries are in flight at once.                                   *)
(*                                                                                            *)
(*   local : CreateTmp, CopyData (one copy_file_range), CopyEof, Rename, SetMtime               *)
(*   pull  : CreateTmp, Write chunk*, Rename, SetMtime        (bytes arrive from `ssh cat`)      *)
(*   push  : the sender writes the pipe chunk by chunk and closes it; the REMOTE shell            *)
(*           `cat > tmp && [size ok] && mv -T tmp dst && touch` is a separate process that         *)
(*           keeps running after the sender died: it sees EOF, cat exits 0.                        *)
(*           FixSize = FALSE is the pinned commit (no size test): the prefix goes live (H10).      *)
(*                                                                                            *)
(* A file state is <<"old">>, <<"new">> (complete source bytes), <<"absent">>, or <<"part", n>>.   *)
EXTENDS Naturals, Sequences, FiniteSets, TLC

CONSTANTS Files, Chunks, Dir, Jobs, FixSize, OldState
\* Files: set of file ids; Chunks[f] = number of transfer chunks of f (0 = empty file);
\* OldState[f] \in {"absent", "old"}: what the destination holds before the run

VARIABLES dst, tmp, mt, pc, sent, rpc, rgot, alive, rerun
vars == <<dst, tmp, mt, pc, sent, rpc, rgot, alive, rerun>>
\* dst[f], tmp[f] : file states;  mt[f] : "old" | "new" | "now" mtime of dst[f]
\* pc[f] : sender-side progress;  sent[f] : chunks written to the pipe / staging file
\* rpc[f], rgot[f] : remote shell progress and chunks it has consumed (push only);  alive : copia process alive

New == <<"new">>  Old == <<"old">>  Gone == <<"absent">>
PartOr(f, n) == IF n = Chunks[f] THEN New ELSE <<"part", n>>

Init == /\ dst = [f \in Files |-> <<OldState[f]>>] /\ tmp = [f \in Files |-> Gone]
        /\ mt = [f \in Files |-> "old"]
        /\ pc = [f \in Files |-> "queued"] /\ sent = [f \in Files |-> 0]
        /\ rpc = [f \in Files |-> "idle"] /\ rgot = [f \in Files |-> 0]
        /\ alive = TRUE /\ rerun = FALSE

InFlight == {f \in Files : pc[f] \notin {"queued", "done"}}

Start(f) == /\ alive /\ pc[f] = "queued" /\ Cardinality(InFlight) < Jobs
            /\ IF Dir = "push"
                 THEN pc' = [pc EXCEPT ![f] = "stream"] /\ rpc' = [rpc EXCEPT ![f] = "cat"] /\ tmp' = [tmp EXCEPT ![f] = <<"part", 0>>]
                 ELSE pc' = [pc EXCEPT ![f] = "stream"] /\ tmp' = [tmp EXCEPT ![f] = <<"part", 0>>] /\ UNCHANGED rpc     \* CreateTmp
            /\ UNCHANGED <<dst, mt, sent, rgot, alive, rerun>>

\* one chunk written by the copia process (to the staging file, or - push - to the pipe)
WriteChunk(f) == /\ alive /\ pc[f] = "stream" /\ sent[f] < Chunks[f]
                 /\ sent' = [sent EXCEPT ![f] = @ + 1]
                 /\ IF Dir = "push" THEN UNCHANGED tmp ELSE tmp' = [tmp EXCEPT ![f] = PartOr(f, sent[f] + 1)]
                 /\ UNCHANGED <<dst, mt, pc, rpc, rgot, alive, rerun>>

EndStream(f) == /\ alive /\ pc[f] = "stream" /\ sent[f] = Chunks[f]
                /\ IF Dir = "push"
                     THEN pc' = [pc EXCEPT ![f] = "wait"] /\ UNCHANGED tmp                    \* close the pipe, wait for ssh
                     ELSE pc' = [pc EXCEPT ![f] = "rename"] /\ tmp' = [tmp EXCEPT ![f] = New]   \* (empty file: CreateTmp left it complete)
                /\ UNCHANGED <<dst, mt, sent, rpc, rgot, alive, rerun>>

Rename(f) == /\ alive /\ pc[f] = "rename" /\ Dir # "push"
             /\ dst' = [dst EXCEPT ![f] = tmp[f]] /\ tmp' = [tmp EXCEPT ![f] = Gone] /\ mt' = [mt EXCEPT ![f] = "now"]
             /\ pc' = [pc EXCEPT ![f] = "mtime"] /\ UNCHANGED <<sent, rpc, rgot, alive, rerun>>
SetMtime(f) == /\ alive /\ pc[f] = "mtime" /\ Dir # "push"
               /\ mt' = [mt EXCEPT ![f] = "new"] /\ pc' = [pc EXCEPT ![f] = "done"]
               /\ UNCHANGED <<dst, tmp, sent, rpc, rgot, alive, rerun>>

(* ---- the remote shell of a push (independent process) ---- *)
RCat(f) == /\ Dir = "push" /\ rpc[f] = "cat" /\ rgot[f] < sent[f]
           /\ rgot' = [rgot EXCEPT ![f] = @ + 1] /\ tmp' = [tmp EXCEPT ![f] = <<"part", rgot[f] + 1>>]
           /\ UNCHANGED <<dst, mt, pc, sent, rpc, alive, rerun>>
REof(f) == /\ Dir = "push" /\ rpc[f] = "cat" /\ rgot[f] = sent[f] /\ (pc[f] = "wait" \/ ~alive)      \* EOF: pipe closed or sender dead
           /\ rpc' = [rpc EXCEPT ![f] = "check"]
           /\ UNCHANGED <<dst, tmp, mt, pc, sent, rgot, alive, rerun>>
RCheck(f) == /\ Dir = "push" /\ rpc[f] = "check"
             /\ rpc' = [rpc EXCEPT ![f] = IF FixSize /\ rgot[f] # Chunks[f] THEN "failed" ELSE "mv"]
             /\ UNCHANGED <<dst, tmp, mt, pc, sent, rgot, alive, rerun>>
RMv(f) == /\ Dir = "push" /\ rpc[f] = "mv"
          /\ dst' = [dst EXCEPT ![f] = PartOr(f, rgot[f])] /\ tmp' = [tmp EXCEPT ![f] = Gone] /\ mt' = [mt EXCEPT ![f] = "now"]
          /\ rpc' = [rpc EXCEPT ![f] = "touch"] /\ UNCHANGED <<pc, sent, rgot, alive, rerun>>
RTouch(f) == /\ Dir = "push" /\ rpc[f] = "touch"
             /\ mt' = [mt EXCEPT ![f] = "new"] /\ rpc' = [rpc EXCEPT ![f] = "done"]
             /\ UNCHANGED <<dst, tmp, pc, sent, rgot, alive, rerun>>
SenderSeesExit(f) == /\ alive /\ Dir = "push" /\ pc[f] = "wait" /\ rpc[f] \in {"done", "failed"}
                     /\ pc' = [pc EXCEPT ![f] = "done"] /\ UNCHANGED <<dst, tmp, mt, sent, rpc, rgot, alive, rerun>>

Crash == /\ alive /\ \E f \in Files : pc[f] # "done"
         /\ alive' = FALSE /\ UNCHANGED <<dst, tmp, mt, pc, sent, rpc, rgot, rerun>>

RemoteQuiet == Dir # "push" \/ \A f \in Files : rpc[f] \in {"idle", "done", "failed"}

\* running the same command again after the crash (once the orphaned remote shells are gone): the quick check
\* re-plans every file that is not already complete with the source's mtime
Rerun == /\ ~alive /\ ~rerun /\ RemoteQuiet
         /\ rerun' = TRUE
         /\ dst' = [f \in Files |-> New] /\ mt' = [f \in Files |-> "new"] /\ tmp' = [f \in Files |-> IF dst[f] = New /\ mt[f] = "new" THEN tmp[f] ELSE Gone]
         /\ UNCHANGED <<pc, sent, rpc, rgot, alive>>

Next == \/ \E f \in Files : Start(f) \/ WriteChunk(f) \/ EndStream(f) \/ Rename(f) \/ SetMtime(f)
                            \/ RCat(f) \/ REof(f) \/ RCheck(f) \/ RMv(f) \/ RTouch(f) \/ SenderSeesExit(f)
        \/ Crash \/ Rerun
Spec == Init /\ [][Next]_vars

\* C09: at every instant every destination path holds its old bytes or the complete source bytes
Atomic == \A f \in Files : dst[f] \in {Old, Gone, New} /\ (dst[f] \in {Old, Gone} => dst[f] = <<OldState[f]>>)
\* a file whose content is new but whose mtime is not yet the source's is re-sent by the rerun (quick check on mtime)
RerunCompletes == rerun => \A f \in Files : dst[f] = New /\ mt[f] = "new"
NoCrashDelivers == (alive /\ \A f \in Files : pc[f] = "done") => \A f \in Files : dst[f] = New /\ mt[f] = "new" /\ tmp[f] = Gone
=============================================================================
