SPECIFICATION Spec
CONSTANTS
  Servers = {1, 2, 3}
  Paths = {"f", "g"}
  Contents = {"c1", "c2", "c3"}
  Ch = 2
  Programs <- P_casrace3
  Init0 <- c_Init0
  TmpShared = FALSE
  GetThreeLooks = FALSE
  AllowKill = TRUE
INVARIANTS Clean Complete MutualExclusion
CHECK_DEADLOCK FALSE
