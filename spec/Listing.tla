------------------------------- MODULE Listing -------------------------------
(* The remote listing of `sync -r` (src/bin/copia/meta.rs): what                      *)
(*   find . -type f -printf '%s\t%T@\t%p\0'                                           *)
(* produces (Format) and how parse_remote_meta_output reads it back (Parse), over an  *)
(* abstract byte alphabet: "TAB" "NL" "NUL" "." "/" " " letters digits.               *)
(* Numbers are decimal token strings (a canonical decimal string parses to itself).   *)
(* Property C19: Parse(Format(t)) = t for any path bytes that are valid UTF-8.         *)
EXTENDS Naturals, Sequences, FiniteSets, TLC, Json

CONSTANTS Paths, Sizes, Mtimes      \* token strings; Mtimes are <<secs, frac>> pairs, frac possibly <<>>

Digits == {"0", "1", "2", "3", "4", "5", "6", "7", "8", "9"}
IsNumber(s) == s # <<>> /\ \A i \in 1..Len(s) : s[i] \in Digits

\* whole seconds may be negative (before 1970): `find -printf %T@` prints the FLOORED second and a non-negative fraction,
\* so the second is the text before the point, as it stands
IsInt(s) == IsNumber(s) \/ (Len(s) >= 2 /\ s[1] = "-" /\ IsNumber(Tail(s)))

MtimeStr(m) == IF m[2] = <<>> THEN m[1] ELSE m[1] \o <<".">> \o m[2]
FormatRec(r) == r.size \o <<"TAB">> \o MtimeStr(r.mtime) \o <<"TAB">> \o <<".", "/">> \o r.path \o <<"NUL">>

RECURSIVE FormatAll(_)
FormatAll(rs) == IF rs = <<>> THEN <<>> ELSE FormatRec(Head(rs)) \o FormatAll(Tail(rs))

(* ---- the parser, as the code runs it ---- *)
IndexOf(s, tok) == IF \E i \in 1..Len(s) : s[i] = tok THEN CHOOSE i \in 1..Len(s) : s[i] = tok /\ \A j \in 1..(i - 1) : s[j] # tok ELSE 0

RECURSIVE SplitAll(_, _)
SplitAll(s, tok) ==
  LET i == IndexOf(s, tok) IN
  IF i = 0 THEN <<s>> ELSE <<SubSeq(s, 1, i - 1)>> \o SplitAll(SubSeq(s, i + 1, Len(s)), tok)

\* splitn(3, TAB): at most the first two TABs split
Split3(s) ==
  LET i == IndexOf(s, "TAB") IN
  IF i = 0 THEN <<s>>
  ELSE LET rest == SubSeq(s, i + 1, Len(s))  j == IndexOf(rest, "TAB") IN
       IF j = 0 THEN <<SubSeq(s, 1, i - 1), rest>>
       ELSE <<SubSeq(s, 1, i - 1), SubSeq(rest, 1, j - 1), SubSeq(rest, j + 1, Len(rest))>>

StripDotSlash(p) == IF Len(p) >= 2 /\ p[1] = "." /\ p[2] = "/" THEN SubSeq(p, 3, Len(p)) ELSE p

\* result of one entry: <<>> (skipped) or <<[path, size, secs]>>
ParseEntry(e) ==
  IF e = <<>> THEN <<>>
  ELSE LET parts == Split3(e) IN
    IF Len(parts) < 3 THEN <<>>
    ELSE IF ~IsNumber(parts[1]) THEN <<>>
    ELSE LET secsTok == SplitAll(parts[2], ".")[1]
             secs == IF IsInt(secsTok) THEN secsTok ELSE <<"0">>
             rel == StripDotSlash(parts[3])
         IN IF rel = <<>> THEN <<>> ELSE <<[path |-> rel, size |-> parts[1], secs |-> secs]>>

RECURSIVE ParseEntries(_)
ParseEntries(es) == IF es = <<>> THEN <<>> ELSE ParseEntry(Head(es)) \o ParseEntries(Tail(es))
Parse(bytes) == ParseEntries(SplitAll(bytes, "NUL"))

\* later entries for the same path overwrite earlier ones (BTreeMap::insert)
AsMap(seq) == {r \in {seq[i] : i \in 1..Len(seq)} :
                 \A i \in 1..Len(seq) : seq[i].path = r.path => \E j \in i..Len(seq) : seq[j] = r /\ \A k \in (j + 1)..Len(seq) : seq[k].path # r.path}

Recs == [path : Paths, size : Sizes, mtime : Mtimes]

VARIABLES listing, phase
vars == <<listing, phase>>
Init == /\ listing \in {<<>>} \cup {<<r>> : r \in Recs} \cup {<<r, q>> : r \in Recs, q \in Recs}
        /\ phase = "new"
Next == phase = "new" /\ phase' = "checked" /\ UNCHANGED listing
Spec == Init /\ [][Next]_vars

Want(rs) == [i \in 1..Len(rs) |-> [path |-> rs[i].path, size |-> rs[i].size, secs |-> rs[i].mtime[1]]]

RoundTrip == AsMap(Parse(FormatAll(listing))) = AsMap(Want(listing))

Emit == phase = "checked" =>
  PrintT(<<"CASE", ToJson([bytes |-> FormatAll(listing), want |-> AsMap(Want(listing))])>>)
=============================================================================
