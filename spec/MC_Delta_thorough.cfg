SPECIFICATION Spec
CONSTANTS
  Sym = {"R1", "R2", "H", "K1", "K2"}
  MaxLen = 4
  Bs = {1, 2}
  WeakMode = "same"
INVARIANTS AllOK Emit
CHECK_DEADLOCK FALSE
