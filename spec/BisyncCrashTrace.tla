-------------------------- MODULE BisyncCrashTrace --------------------------
(* Binding S (kill mode) for C08.  One record per (scenario, k): the real `copia bisync` was    *)
(* killed immediately before its k-th file-system-mutating libc call (k = 0: not killed).        *)
(* The record carries the pre-run state, the libc calls the process completed (mapped to the      *)
(* step vocabulary of BisyncCrash by name and path only), the byte-exact snapshot taken after      *)
(* the kill, the state after the recovery run(s) and the uninterrupted result.                     *)
(*   Conform : replaying the calls through BisyncCrash!Exec from the pre-run state yields the       *)
(*             observed snapshot; for k = 0 the calls are BisyncCrash!Program (modulo stutters)      *)
(*   Monitor : at EVERY replayed state and on the observed snapshot: no partial file at a            *)
(*             non-staging path, archive in {old, absent, new}, new archive only with all data        *)
(*             in place and (ordering clause) delivered from flushed inodes; after recovery the       *)
(*             uninterrupted result and no lost version.                                              *)
EXTENDS BisyncCrashDefs, Json, IOUtils

Recs == ndJsonDeserialize(IOEnv.TRACE)
PathList == SortedPaths(AllPaths)
NP == Len(PathList)
IdxMap == [p \in AllPaths |-> CHOOSE i \in 1..NP : PathList[i] = p]
T(arr) == [p \in AllPaths |-> arr[IdxMap[p]]]

VARIABLES l, bad, nonconf
tvars == <<l, bad, nonconf>>

StepOf(c) ==     \* JSON call -> step record
  IF c.op \in {"CreateTmp", "CopyEof", "FsyncTmp", "Rename", "Unlink"} THEN [op |-> c.op, side |-> c.side, path |-> PathList[c.path]]
  ELSE IF c.op = "CopyData" THEN [op |-> "CopyData", side |-> c.side, path |-> PathList[c.path], fside |-> c.fside, fpath |-> PathList[c.fpath]]
  ELSE [op |-> c.op]

RECURSIVE Replay(_, _, _, _)
\* returns [fs, ok]: ok = the instant invariants held at every state along the way
Replay(fs, calls, i, fin) ==
  IF i > Len(calls) THEN [fs |-> fs, ok |-> TRUE]
  ELSE LET f2 == Exec(fs, StepOf(calls[i])) IN
       IF NoPartial(f2) /\ ArchNotAhead(f2, fin) THEN Replay(f2, calls, i + 1, fin)
       ELSE [fs |-> f2, ok |-> FALSE]

Effective(prog) == SelectSeq(prog, LAMBDA s : s.op \notin {"DirFsync"})
Shape(s) == IF s.op \in {"CreateTmp", "CopyData", "CopyEof", "FsyncTmp", "Rename", "Unlink"} THEN <<s.op, s.side, s.path>> ELSE <<s.op>>

Failed(e) ==
  LET a == T(e.pre.A)  b == T(e.pre.B)  la == T(e.pre.last)
      fin == [a |-> T(e.fin.A), b |-> T(e.fin.B)]
      rp == Replay(FS0(a, b, e.pre.tr), e.calls, 1, fin)
      snapA == T(e.crash.A)  snapB == T(e.crash.B)
      rec == [a |-> T(e.rec.A), b |-> T(e.rec.B)]
  IN   (IF rp.ok THEN {} ELSE {"replayed-state"})
  \cup (IF \A p \in AllPaths : snapA[p] # Partial /\ snapB[p] # Partial THEN {} ELSE {"partial-file"})
  \cup (IF e.crash.arch \in {"old", "absent", "new"} THEN {} ELSE {"archive-torn"})
  \cup (IF e.crash.arch = "new" /\ ~(snapA = fin.a /\ snapB = fin.b) THEN {"record-ahead-of-data"} ELSE {})
  \cup (IF e.rec.ok /\ rec.a = fin.a /\ rec.b = fin.b THEN {} ELSE {"recovery-differs"})
  \* ... and once the re-run has completed on the uninterrupted run's trees, the recorded state is that tree, readable
  \cup (IF e.rec.ok /\ rec.a = fin.a /\ rec.b = fin.b /\ e.rec.arch # "new" THEN {"recovered-archive-not-the-final-state"} ELSE {})
  \cup (IF NoLossEdge(a, b, la, rec) THEN {} ELSE {"version-lost"})

Conform(e) ==
  LET a == T(e.pre.A)  b == T(e.pre.B)
      fin == [a |-> T(e.fin.A), b |-> T(e.fin.B)]
      rp == Replay(FS0(a, b, e.pre.tr), e.calls, 1, fin)
      model == RunResult(a, b, e.pre.tr, T(e.pre.E))
  IN /\ rp.fs.A = T(e.crash.A) /\ rp.fs.B = T(e.crash.B)
     /\ rp.fs.SA = T(e.crash.SA) /\ rp.fs.SB = T(e.crash.SB)
     /\ rp.fs.arch = e.crash.arch
     /\ ~model.over /\ model.a = fin.a /\ model.b = fin.b
     /\ e.k = 0 => [i \in 1..Len(Effective(Program(a, b, e.pre.tr, T(e.pre.E), e.pre.tr))) |-> Shape(Effective(Program(a, b, e.pre.tr, T(e.pre.E), e.pre.tr))[i])]
                   = [i \in 1..Len(e.calls) |-> Shape(StepOf(e.calls[i]))]

Init == l = 1 /\ bad = {} /\ nonconf = {}
Next == /\ l <= Len(Recs)
        /\ bad' = bad \cup {<<l, q>> : q \in Failed(Recs[l])}
        /\ nonconf' = IF Conform(Recs[l]) THEN nonconf ELSE nonconf \cup {l}
        /\ l' = l + 1
Spec == Init /\ [][Next]_tvars
Report == (l = Len(Recs) + 1) => PrintT(<<"RESULT", ToJson([n |-> Len(Recs), bad |-> bad, nonconf |-> nonconf])>>)
=============================================================================
