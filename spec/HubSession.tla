------------------------------ MODULE HubSession ------------------------------
(* One connection of `copia serve` as a byte-stream machine (wire.rs + serve.rs):             *)
(*     AwaitMagic -> AwaitFrame <-> (content of a Put) -> Closed(exit)                          *)
(* over classes of input pieces.  The served tree is abstracted to one path "f" and its         *)
(* conflict-copy.  For every session of <= MaxFrames pieces the machine yields the reply         *)
(* sequence, the exit status and the final tree (C12):                                           *)
(*   - nothing in the tree changes before a valid prologue and a well-formed request             *)
(*   - an oversize / undecodable / truncated frame ends the session with status 1 and no reply,   *)
(*     never a signal; a clean end of input (also inside a length prefix) is status 0             *)
(*   - after an error REPLY (bad path, not found, hash mismatch) the stream is still in step       *)
EXTENDS Naturals, Integers, Sequences, FiniteSets, TLC, Json

CONSTANTS MaxFrames, InitF

Prologues == {"ok", "short", "bad", "banner"}
\* well-framed requests
\* (get_padded / get_smuggle: a Get whose frame is longer than its CBOR item - zero filler, resp. a complete Delete frame as
\*  filler; a frame is consumed to its declared length, so both are plain Gets and the filler is never a request)
Requests == {"hello", "hello_other", "put_empty_badhash", "list", "get", "get_padded", "get_smuggle", "get_badpath", "get_missing_maxframe", "put_new", "put_cas_c1", "put_badhash", "put_badpath", "put_dir_badhash", "put_under_file", "delete_c2", "delete_badpath"}
\* pieces that are not a well-framed request
Breakers == {"oversize_2p20p1", "oversize_u32max", "undecodable", "unknown_variant", "zero_len", "deep_nesting", "huge_inner_len",
             "eof_in_prefix", "eof_in_body", "put_content_eof", "put_len_beyond_eof", "bye"}
Pieces == Requests \cup Breakers

VARIABLES pro, sess, todo, st, f, conf, replies, exit
vars == <<pro, sess, todo, st, f, conf, replies, exit>>

Init == /\ pro \in Prologues
        /\ todo \in UNION {[1..k -> Pieces] : k \in 0..MaxFrames} /\ sess = todo
        /\ st = "AwaitMagic" /\ f = InitF /\ conf = "none" /\ replies = <<>> /\ exit = -1

Close(code) == st' = "Closed" /\ exit' = code

Magic == /\ st = "AwaitMagic"
         /\ IF pro = "ok" THEN st' = "AwaitFrame" /\ exit' = exit ELSE Close(1)      \* short read, wrong bytes, banner text: refuse
         /\ UNCHANGED <<pro, sess, todo, f, conf, replies>>

Rep(r) == replies' = Append(replies, r)

Frame == /\ st = "AwaitFrame"
         /\ IF todo = <<>> THEN Close(0) /\ UNCHANGED <<todo, f, conf, replies>>            \* clean end of input at a frame boundary
            ELSE LET x == Head(todo) IN
              /\ todo' = Tail(todo)
              /\ CASE x \in {"hello", "hello_other"} -> Rep("Hello") /\ UNCHANGED <<st, exit, f, conf>>   \* whatever version the client names (0, 2, 2^32), first or repeated: the hub states its own
                   [] x = "put_empty_badhash" -> Rep("Error:content hash mismatch") /\ UNCHANGED <<st, exit, f, conf>>   \* Put(f, expected c1, len 0, a hash that is not the empty content's)
                   [] x = "list" -> Rep(<<"List", f, conf>>) /\ UNCHANGED <<st, exit, f, conf>>
                   [] x \in {"get", "get_padded", "get_smuggle"} -> Rep(IF f = "none" THEN "Error:not found" ELSE <<"Content", f>>) /\ UNCHANGED <<st, exit, f, conf>>
                   [] x = "get_missing_maxframe" -> Rep("Error:not found") /\ UNCHANGED <<st, exit, f, conf>>   \* a request frame of (nearly) the largest size the hub takes, naming an acceptable path that cannot exist
                   [] x \in {"get_badpath", "put_badpath", "delete_badpath"} -> Rep("Error:bad path") /\ UNCHANGED <<st, exit, f, conf>>
                   [] x = "put_new" ->       \* Put(f, expected = absent, content c2)
                        IF f = "none" THEN f' = "c2" /\ Rep(<<"Put", "committed", "c2">>) /\ UNCHANGED <<st, exit, conf>>
                        ELSE conf' = "c2" /\ Rep(<<"Put", "conflict", f>>) /\ UNCHANGED <<st, exit, f>>
                   [] x = "put_cas_c1" ->    \* Put(f, expected = c1, content c2)
                        IF f = "c1" THEN f' = "c2" /\ Rep(<<"Put", "committed", "c2">>) /\ UNCHANGED <<st, exit, conf>>
                        ELSE conf' = "c2" /\ Rep(<<"Put", "conflict", f>>) /\ UNCHANGED <<st, exit, f>>
                   [] x \in {"put_badhash", "put_dir_badhash"} -> Rep("Error:content hash mismatch") /\ UNCHANGED <<st, exit, f, conf>>   \* also when the destination is an existing directory and the content bytes look like frames
                   [] x = "put_under_file" ->   \* Put(docs/keep/x): a leading component is a FILE on the hub, so no staging file can be made -
                                                \* that request fails, its content is drained, the session goes on
                        Rep("Error:cannot stage") /\ UNCHANGED <<st, exit, f, conf>>
                   [] x = "delete_c2" ->
                        IF f = "c2" THEN f' = "none" /\ Rep(<<"Delete", "deleted", "none">>) /\ UNCHANGED <<st, exit, conf>>
                        ELSE Rep(<<"Delete", "refused", f>>) /\ UNCHANGED <<st, exit, f, conf>>
                   [] x = "put_len_beyond_eof" ->  \* declared length larger than the bytes that arrive before the input ends, declared hash = hash of
                                                   \* those bytes: "streamed bytes do not match the declared length" - nothing may change (C10)
                        Rep("Error:content length mismatch") /\ Close(0) /\ UNCHANGED <<f, conf>>
                   [] x = "put_content_eof" ->     \* the input ends inside the Put's content: the short read fails the hash test, the reply is sent, then clean EOF
                        Rep("Error:content hash mismatch") /\ Close(0) /\ UNCHANGED <<f, conf>>
                   [] x = "bye" -> Close(0) /\ UNCHANGED <<f, conf, replies>>
                   [] x = "eof_in_prefix" -> Close(0) /\ UNCHANGED <<f, conf, replies>>      \* 1-3 bytes of a prefix, then end of input
                   [] OTHER -> Close(1) /\ UNCHANGED <<f, conf, replies>>                     \* oversize, undecodable, truncated: error exit, no reply
         /\ UNCHANGED <<pro, sess>>

Next == Magic \/ Frame
Spec == Init /\ [][Next]_vars

\* C12 on the model
Total == st = "Closed" => exit \in {0, 1}
NoEffectBeforeRequest == (pro # "ok") => (f = InitF /\ conf = "none" /\ replies = <<>>)
InStep == TRUE    \* by construction: every error reply leaves st = AwaitFrame; checked against the real server

Emit == st = "Closed" =>
  PrintT(<<"CASE", ToJson([pro |-> pro, pieces |-> sess, f |-> f, conf |-> conf, replies |-> replies, exit |-> exit])>>)
=============================================================================
