--------------------------- MODULE OneWayCrashTrace ---------------------------
(* Binding S (kill mode) for C09.  One record per (scenario, k): the real `copia sync -r` was  *)
(* killed immediately before its k-th file-system / pipe write call (k = 0: not killed); for     *)
(* push the orphaned remote shell was left to finish.  Per destination path the record gives      *)
(* the class of its bytes after the kill ("old" | "new" | "absent" | "partial" | "other"),         *)
(* the calls the copia process completed, and the result of running the same command again.        *)
(*   Monitor : C09 on the observed snapshot - planned paths hold exactly old or exactly new        *)
(*             bytes, unplanned paths are untouched, the rerun exits 0 and reproduces the           *)
(*             uninterrupted destination (bytes and whole-second mtimes)                            *)
(*   Conform : (local / pull) the snapshot is the one OneWayCrash's actions give for the logged     *)
(*             calls: a path is new iff its Rename completed, a staging file exists iff its          *)
(*             CreateTmp completed and its Rename did not                                           *)
EXTENDS Naturals, Sequences, FiniteSets, TLC, Json, IOUtils

Recs == ndJsonDeserialize(IOEnv.TRACE)
VARIABLES l, bad, nonconf
vars == <<l, bad, nonconf>>

Has(calls, op, p) == \E i \in 1..Len(calls) : calls[i].op = op /\ calls[i].path = p

Failed(e) ==
     (IF \A i \in 1..Len(e.paths) :
            LET q == e.paths[i] IN
            IF q.planned THEN q.crash \in {q.old, "new"} ELSE q.crash = q.old
      THEN {} ELSE {"torn-or-foreign-bytes"})
  \cup (IF e.rerun_exit = 0 /\ e.rerun_equal THEN {} ELSE {"rerun-differs"})
  \cup (IF e.k = 0 /\ ~(e.exit = 0 /\ e.rerun_equal) THEN {"uninterrupted-run"} ELSE {})

Conform(e) ==
  e.dir = "push" \/
  \A i \in 1..Len(e.paths) :
    LET q == e.paths[i] IN
    q.planned /\ q.kind = "transfer" =>
      IF e.jobs = 1
      THEN /\ (q.crash = "new") = (Has(e.calls, "Rename", i) \/ q.old = "new")
           /\ q.staging = (Has(e.calls, "CreateTmp", i) /\ ~Has(e.calls, "Rename", i))
      \* several transfers in flight: the process is killed before the k-th call of ONE thread; another thread may have
      \* completed a call whose log line (written after the call returns) never made it - one call per thread at most
      ELSE /\ Has(e.calls, "Rename", i) => q.crash = "new"
           /\ q.crash = "new" => (Has(e.calls, "Rename", i) \/ q.old = "new" \/ Has(e.calls, "CreateTmp", i))
           /\ (Has(e.calls, "CreateTmp", i) /\ ~Has(e.calls, "Rename", i) /\ q.crash # "new") => q.staging

Init == l = 1 /\ bad = {} /\ nonconf = {}
Next == /\ l <= Len(Recs)
        /\ bad' = bad \cup {<<l, q>> : q \in Failed(Recs[l])}
        /\ nonconf' = IF Conform(Recs[l]) THEN nonconf ELSE nonconf \cup {l}
        /\ l' = l + 1
Spec == Init /\ [][Next]_vars
Report == (l = Len(Recs) + 1) => PrintT(<<"RESULT", ToJson([n |-> Len(Recs), bad |-> bad, nonconf |-> nonconf])>>)
=============================================================================
