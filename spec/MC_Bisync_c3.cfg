SPECIFICATION Spec
CONSTANTS
  NB = 1
  C = 3
  MaxDepth = 2
  MaxK = 1
  FixStale = TRUE
  FixCollide = TRUE
  Editable <- c_EditableLow
  InitContents = 0
INVARIANTS NoLoss Converged ConflictShape NoBaseNoDelete MirrorSym
CHECK_DEADLOCK FALSE
