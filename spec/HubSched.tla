------------------------------- MODULE HubSched -------------------------------
(* Behaviours of Hub for the spec -> code replay (binding S): the model is run with a      *)
(* history variable recording, for every step that touches a shared object, which server    *)
(* took it; each complete behaviour is emitted with its final projection and replies.       *)
(* The controller replays the server order on real `copia serve` processes.                  *)
EXTENDS MC_Hub

VARIABLE hist
svars == <<vars, hist>>

VisiblePc == {"put", "pwrite", "plock", "dlock", "pread", "dread", "pren", "punlock", "dunlock", "dunl", "get", "lhash"}
             \cup (IF GetThreeLooks THEN {"ghash", "gstream"} ELSE {})

SInit == Init /\ hist = <<>>
SNext == \E s \in Servers :
           \/ Step(s) /\ hist' = IF pc[s] \in VisiblePc /\ ~(pc[s] = "pwrite" /\ loc[s].w = Ch /\ Req(s).hashok)      \* a successful verify is in memory only
                                THEN Append(hist, <<s, pc[s]>>) ELSE hist
           \/ Kill(s) /\ hist' = Append(hist, <<s, "kill">>)
SSpec == SInit /\ [][SNext]_svars

EmitSched == AllDone =>
  PrintT(<<"SCHED", ToJson([hist |-> hist,
                            final |-> [n \in {m \in PubNames : names[m] # 0} |-> Class(inodes[names[n]])],
                            replies |-> replies, bad |-> bad])>>)
=============================================================================
