SPECIFICATION Spec
CONSTANTS
  Paths <- c_Paths
  Sizes <- c_Sizes
  Mtimes <- c_Mtimes
INVARIANTS RoundTrip Emit
CHECK_DEADLOCK FALSE
