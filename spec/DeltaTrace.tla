------------------------------ MODULE DeltaTrace ------------------------------
(* Code -> spec for C01 / C16 at real sizes.  Each record describes one real delta      *)
(* computation: block size R, lengths, the independently computed MATCH MAP (every        *)
(* source position whose R-byte window equals a full basis block, with the lowest such    *)
(* block) and the ops the real engine produced (literal contents are compared with the    *)
(* source by the harness: lit_ok).  The spec runs the scan machine of DeltaEngine over    *)
(* the match map and requires: the real ops are that behaviour (Conform); literal bytes    *)
(* <= textbook greedy, lengths sum to the source, copies inside the basis, identical =>    *)
(* literal < R, k-byte edit => literal <= k + 2R, patched output = source (Monitor).       *)
EXTENDS Naturals, Sequences, TLC, Json, IOUtils

Recs == ndJsonDeserialize(IOEnv.TRACE)

VARIABLES l, bad, bad16, nonconf
vars == <<l, bad, bad16, nonconf>>

\* scan over the sparse, position-sorted match list ms = << <<pos, idx>>, ... >>
RECURSIVE SkipTo(_, _, _)
SkipTo(ms, k, pos) == IF k <= Len(ms) /\ ms[k][1] < pos THEN SkipTo(ms, k + 1, pos) ELSE k

PushC(ops, off, len) ==
  IF ops # <<>> /\ ops[Len(ops)][1] = "C" /\ ops[Len(ops)][2] + ops[Len(ops)][3] = off
    THEN [ops EXCEPT ![Len(ops)] = <<"C", @[2], @[3] + len>>] ELSE Append(ops, <<"C", off, len>>)
PushL(ops, len) ==
  IF len = 0 THEN ops
  ELSE IF ops # <<>> /\ ops[Len(ops)][1] = "L" THEN [ops EXCEPT ![Len(ops)] = <<"L", @[2] + len>>]
  ELSE Append(ops, <<"L", len>>)

RECURSIVE ScanM(_, _, _, _, _, _)
ScanM(ms, R, slen, pos, k0, ops) ==
  LET k == SkipTo(ms, k0, pos) IN
  IF k > Len(ms) THEN PushL(ops, slen - pos)
  ELSE ScanM(ms, R, slen, ms[k][1] + R, k + 1, PushC(PushL(ops, ms[k][1] - pos), ms[k][2] * R, R))

SpecOps(e) == IF e.slen = 0 THEN <<>> ELSE IF e.blen = 0 THEN <<<<"L", e.slen>>>> ELSE ScanM(e.matches, e.R, e.slen, 0, 1, <<>>)

RECURSIVE LitOf(_), SumOf(_)
LitOf(ops) == IF ops = <<>> THEN 0 ELSE (IF Head(ops)[1] = "L" THEN Head(ops)[2] ELSE 0) + LitOf(Tail(ops))
SumOf(ops) == IF ops = <<>> THEN 0 ELSE (IF Head(ops)[1] = "L" THEN Head(ops)[2] ELSE Head(ops)[3]) + SumOf(Tail(ops))

MonC16(e) ==
  LET want == SpecOps(e) IN
  /\ e.completed
  /\ LitOf(e.ops) <= LitOf(want)                                             \* no more literal bytes than textbook greedy
  /\ e.identical => LitOf(e.ops) < e.R
  /\ e.edit_k >= 0 => LitOf(e.ops) <= e.edit_k + 2 * e.R

MonC01(e) ==
  /\ e.completed
  /\ SumOf(e.ops) = e.slen
  /\ \A i \in 1..Len(e.ops) : e.ops[i][1] = "C" => (e.ops[i][2] + e.ops[i][3] <= e.blen /\ e.ops[i][3] > 0)
  /\ e.lit_ok /\ e.fields_ok /\ e.patched_ok /\ e.engines_agree

Conform(e) == e.completed /\ e.ops = SpecOps(e)

Init == l = 1 /\ bad = {} /\ bad16 = {} /\ nonconf = {}
Next == /\ l <= Len(Recs)
        /\ bad' = IF MonC01(Recs[l]) THEN bad ELSE bad \cup {l}
        /\ bad16' = IF MonC16(Recs[l]) THEN bad16 ELSE bad16 \cup {l}
        /\ nonconf' = IF Conform(Recs[l]) THEN nonconf ELSE nonconf \cup {l}
        /\ l' = l + 1
Spec == Init /\ [][Next]_vars
Report == (l = Len(Recs) + 1) => PrintT(<<"RESULT", ToJson([n |-> Len(Recs), bad |-> bad, bad16 |-> bad16, nonconf |-> nonconf])>>)
=============================================================================
