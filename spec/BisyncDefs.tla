----------------------------- MODULE BisyncDefs -----------------------------
(* `copia bisync A B` (src/bin/copia/{bidir,reconcile,archive,meta}.rs) as a state      *)
(* machine over two trees and the per-pair archive.                                      *)
(*                                                                                       *)
(* Paths: a base name followed by conflict-copy suffixes.  <<n, <<c,k>>, ...>> is the      *)
(*   file  <name n>.conflict-<host>-<hex12 of content c>[-k] ...   (k > 0 only when the    *)
(*   plain conflict name was taken by other content - fix: commit H6).                     *)
(* Contents are 1..C ordered as their BLAKE3 digests; 0 = absent.                          *)
(* State: trees A, B; archive (trusted flag + entries); ghost `last` = what both sides      *)
(*   held when the previous run completed (0 where they differed / no run completed).       *)
(* Run(A,B,arch) is given in function form (RunResult) - a fold over the plan in path       *)
(*   order that mutates (a, b, common) exactly like `apply` - so the same definition         *)
(*   serves TLC's search and the validation of edges recorded from the real binary.          *)
(* Parameters FixStale / FixCollide switch the two repairs off to reproduce the pinned       *)
(*   commit's behaviour (regression variants).                                               *)
EXTENDS ReconcileDefs, Integers, TLC

CONSTANTS NB, C, MaxDepth, MaxK, FixStale, FixCollide

Elem == (1..C) \X (0..MaxK)
RECURSIVE PathsOfDepth(_)
PathsOfDepth(d) == IF d = 0 THEN {<<n>> : n \in 1..NB}
                   ELSE {Append(p, e) : p \in PathsOfDepth(d - 1), e \in Elem}
AllPaths == UNION {PathsOfDepth(d) : d \in 0..MaxDepth}
Depth(p) == Len(p) - 1

(* ---- byte order of the rendered names (PathBuf order inside one directory) ---- *)
\* flat key: base index, then per element: 2 ('.'), content, and if k > 0: 1 ('-'), k.   '-' (1) < '.' (2); prefix first
RECURSIVE Flat(_)
Flat(p) == IF Len(p) = 1 THEN <<p[1]>>
           ELSE LET e == p[Len(p)] IN
                Flat(SubSeq(p, 1, Len(p) - 1)) \o <<2, e[1]>> \o (IF e[2] > 0 THEN <<1, e[2]>> ELSE <<>>)
RECURSIVE LexLess(_, _)
LexLess(x, y) == IF x = <<>> THEN y # <<>>
                 ELSE IF y = <<>> THEN FALSE
                 ELSE IF Head(x) # Head(y) THEN Head(x) < Head(y)
                 ELSE LexLess(Tail(x), Tail(y))
Less(p, q) == LexLess(Flat(p), Flat(q))
RECURSIVE SortedPaths(_)
SortedPaths(S) == IF S = {} THEN <<>>
                  ELSE LET m == CHOOSE x \in S : \A y \in S \ {x} : Less(x, y) IN <<m>> \o SortedPaths(S \ {m})

Tree == [AllPaths -> 0..C]
Empty == [p \in AllPaths |-> 0]

Fp(c) == IF c = 0 THEN None ELSE [d |-> c, t |-> "File"]
Act(a, b, z) == Rec(Fp(a), Fp(b), Fp(z))

(* ---- conflict-copy name for loser content c at path p, given the scan-time trees ---- *)
\* usable: q holds nothing but the loser's content c on either side, and its own planned action is not a delete
\* (one side absent while the recorded common state says q = c)
Free(sa, sb, q, c, com) ==
  \/ (sa[q] = 0 /\ sb[q] = 0)
  \/ (sa[q] = c /\ sb[q] = c)
  \/ (((sa[q] = c /\ sb[q] = 0) \/ (sa[q] = 0 /\ sb[q] = c)) /\ com[q] # c)
ConflictK(sa, sb, p, c, com) ==     \* -1 = outside the universe
  IF Depth(p) >= MaxDepth THEN -1
  ELSE IF ~FixCollide THEN 0
  ELSE IF \E k \in 0..MaxK : Free(sa, sb, Append(p, <<c, k>>), c, com)
       THEN CHOOSE k \in 0..MaxK : Free(sa, sb, Append(p, <<c, k>>), c, com) /\ \A j \in 0..(k - 1) : ~Free(sa, sb, Append(p, <<c, j>>), c, com)
       ELSE -1

(* ---- one planned action applied to the running state st = [a, b, common, nconf, over] ---- *)
Step(st, p, sa, sb, base) ==
  LET act == Act(sa[p], sb[p], base[p]) IN
  CASE act = "Noop" -> st
    [] act = "ConvergeIdentical" -> [st EXCEPT !.common[p] = sa[p]]
    [] act = "PropagateAtoB" -> [st EXCEPT !.b[p] = st.a[p], !.common[p] = sa[p]]      \* copies the live file, records the scan fingerprint
    [] act = "PropagateBtoA" -> [st EXCEPT !.a[p] = st.b[p], !.common[p] = sb[p]]
    [] act = "DeleteA" -> [st EXCEPT !.a[p] = 0, !.common[p] = 0]
    [] act = "DeleteB" -> [st EXCEPT !.b[p] = 0, !.common[p] = 0]
    [] act = "ConflictDeleteVsModify" ->
         IF sa[p] # 0 THEN [st EXCEPT !.b[p] = st.a[p], !.common[p] = sa[p]]
                      ELSE [st EXCEPT !.a[p] = st.b[p], !.common[p] = sb[p]]
    [] act = "ConflictBothChanged" ->
         LET awins == sa[p] >= sb[p]
             losefp == IF awins THEN sb[p] ELSE sa[p]
             winfp  == IF awins THEN sa[p] ELSE sb[p]
             k == ConflictK(sa, sb, p, losefp, st.common)
         IN IF k = -1 THEN [st EXCEPT !.over = TRUE]
            ELSE LET ln == Append(p, <<losefp, k>>)
                     loseLive == IF awins THEN st.b[p] ELSE st.a[p]
                     winLive  == IF awins THEN st.a[p] ELSE st.b[p]
                 IN [st EXCEPT !.a[ln] = loseLive, !.b[ln] = loseLive, !.a[p] = winLive, !.b[p] = winLive,
                               !.common[p] = winfp, !.common[ln] = losefp, !.nconf = @ + 1]

RECURSIVE Fold(_, _, _, _, _)
Fold(st, todo, sa, sb, base) == IF todo = <<>> \/ st.over THEN st ELSE Fold(Step(st, Head(todo), sa, sb, base), Tail(todo), sa, sb, base)

PlanPaths(a, b, base) == {p \in AllPaths : (a[p] # 0 \/ b[p] # 0) /\ Act(a[p], b[p], base[p]) # "Noop"}

RunResult(a, b, trusted, e) ==
  LET base == IF trusted THEN e ELSE Empty
      present == {p \in AllPaths : a[p] # 0 \/ b[p] # 0}
      c0 == IF FixStale THEN [p \in AllPaths |-> IF p \in present THEN base[p] ELSE 0] ELSE base
  IN Fold([a |-> a, b |-> b, common |-> c0, nconf |-> 0, over |-> FALSE], SortedPaths(PlanPaths(a, b, base)), a, b, base)

NextLast(ra, rb) == [p \in AllPaths |-> IF ra[p] = rb[p] THEN ra[p] ELSE 0]

(* ---- properties of one Run edge (a, b, trusted, e, last) -> r ---- *)
IsPrefix(p, q) == Len(p) <= Len(q) /\ SubSeq(q, 1, Len(p)) = p
Survives(t, p, v) == \E q \in AllPaths : IsPrefix(p, q) /\ t[q] = v          \* at p, or at a conflict-copy of p (DESIGN A1)

NoLossEdge(a, b, last, r) == \A p \in AllPaths :
  /\ (a[p] # 0 /\ ~(last[p] = a[p] /\ b[p] # a[p])) => (Survives(r.a, p, a[p]) /\ Survives(r.b, p, a[p]))
  /\ (b[p] # 0 /\ ~(last[p] = b[p] /\ a[p] # b[p])) => (Survives(r.a, p, b[p]) /\ Survives(r.b, p, b[p]))

ConvergedEdge(r) ==
  /\ r.a = r.b
  /\ r.common = r.a                                     \* the recorded common state is exactly the tree
  /\ LET rr == RunResult(r.a, r.b, TRUE, r.common) IN    \* an immediate second run plans nothing, changes nothing
       PlanPaths(r.a, r.b, r.common) = {} /\ rr.a = r.a /\ rr.b = r.b /\ rr.common = r.common

ConflictShapeEdge(a, b, trusted, e, r) == \A p \in AllPaths :
  LET base == IF trusted THEN e ELSE Empty IN
  Act(a[p], b[p], base[p]) = "ConflictBothChanged" =>
    LET hi == IF a[p] >= b[p] THEN a[p] ELSE b[p]
        lo == IF a[p] >= b[p] THEN b[p] ELSE a[p]
        ln == Append(p, <<lo, 0>>)
    IN /\ r.a[p] = hi /\ r.b[p] = hi
       /\ Depth(p) < MaxDepth =>
            IF (a[ln] = 0 \/ a[ln] = lo) /\ (b[ln] = 0 \/ b[ln] = lo) /\ ~(a[ln] # b[ln] /\ (IF trusted THEN e ELSE Empty)[ln] = lo)
              THEN r.a[ln] = lo /\ r.b[ln] = lo     \* the documented name, when it was free or held only the loser's bytes
            ELSE \E k \in 0..MaxK : r.a[Append(p, <<lo, k>>)] = lo /\ r.b[Append(p, <<lo, k>>)] = lo   \* name taken: any conflict-copy name of p (DESIGN A1)

NoBaseNoDeleteEdge(a, b, r) == \A p \in AllPaths :
  /\ (a[p] # 0 => r.a[p] # 0) /\ (b[p] # 0 => r.b[p] # 0)                        \* nothing removed
  /\ (a[p] # 0 => Survives(r.a, p, a[p]) /\ Survives(r.b, p, a[p]))
  /\ (b[p] # 0 => Survives(r.a, p, b[p]) /\ Survives(r.b, p, b[p]))

MirrorEdge(a, b, trusted, e, r) ==
  LET m == RunResult(b, a, trusted, e) IN m.over = r.over /\ (~r.over => (m.a = r.b /\ m.b = r.a /\ m.common = r.common))
=============================================================================
