------------------------------ MODULE Reconcile ------------------------------
(* The three-way reconcile decision of `copia bisync` (src/bin/copia/reconcile.rs).   *)
(*   Rec    : transcription of reconcile_path with the code's branch order            *)
(*   Table  : the documented decision table (property C18), written declaratively     *)
(*   machine: the loop of `reconcile` over the sorted union of both sides' paths      *)
(* Fingerprints are records [d |-> digest id, t |-> entry type]; None = absent.        *)
EXTENDS ReconcileDefs, TLC, Json

CONSTANTS Digests, Types, Paths      \* Paths is a set of naturals, ordered as numbers

FP   == [d : Digests, t : Types]
FPN  == FP \cup {None}

Perms == {f \in [Digests -> Digests] : \A x, y \in Digests : f[x] = f[y] => x = y}
Ren(f, x) == IF x = None THEN None ELSE [d |-> f[x.d], t |-> x.t]

TripleOK(a, b, z) ==
  /\ Rec(a, b, z) = Table(a, b, z)
  /\ Rec(b, a, z) = Mirror(Rec(a, b, z))                               \* mirror symmetry
  /\ z = None => Rec(a, b, z) \notin {"DeleteA", "DeleteB"}            \* no delete without a base
  /\ Rec(a, b, z) = "DeleteA" => (b = None /\ a = z)                   \* positive evidence
  /\ Rec(a, b, z) = "DeleteB" => (a = None /\ b = z)
  /\ \A f \in Perms : Rec(Ren(f, a), Ren(f, b), Ren(f, z)) = Rec(a, b, z)   \* only equality matters

(* ---- the whole-tree plan: declarative definition ---- *)
SortedSeq(S) == \* ascending sequence of a finite set of naturals
  LET RECURSIVE go(_)
      go(T) == IF T = {} THEN <<>>
               ELSE LET m == CHOOSE x \in T : \A y \in T : x <= y IN <<m>> \o go(T \ {m})
  IN go(S)

Base(E, trust, p) == IF trust THEN E[p] ELSE None

PlanDef(A, B, E, trust) ==
  LET U == {p \in Paths : A[p] # None \/ B[p] # None}
      nontrivial == {p \in U : Table(A[p], B[p], Base(E, trust, p)) # "Noop"}
  IN [i \in 1..Cardinality(nontrivial) |->
        LET p == SortedSeq(nontrivial)[i] IN <<p, Table(A[p], B[p], Base(E, trust, p))>>]

(* ---- the code's loop as a machine ---- *)
VARIABLES A, B, E, trust, todo, out, pc
vars == <<A, B, E, trust, todo, out, pc>>

Init ==
  /\ A \in [Paths -> FPN] /\ B \in [Paths -> FPN] /\ E \in [Paths -> FPN]
  /\ trust \in BOOLEAN
  /\ todo = SortedSeq({p \in Paths : A[p] # None \/ B[p] # None})
  /\ out = <<>>
  /\ pc = "loop"

Step ==
  /\ pc = "loop" /\ todo # <<>>
  /\ LET p == Head(todo)
         z == IF trust THEN E[p] ELSE None
         act == Rec(A[p], B[p], z)
     IN out' = IF act # "Noop" THEN Append(out, <<p, act>>) ELSE out
  /\ todo' = Tail(todo)
  /\ UNCHANGED <<A, B, E, trust, pc>>

Finish ==
  /\ pc = "loop" /\ todo = <<>>
  /\ pc' = "done"
  /\ UNCHANGED <<A, B, E, trust, todo, out>>

Next == Step \/ Finish
Spec == Init /\ [][Next]_vars

(* ---- invariants ---- *)
TriplesOK == \A p \in Paths : TripleOK(A[p], B[p], E[p]) /\ TripleOK(A[p], B[p], None)

PlanOK == pc = "done" =>
  /\ out = PlanDef(A, B, E, trust)
  /\ ~trust => \A i \in 1..Len(out) : out[i][2] \notin {"DeleteA", "DeleteB"}
  /\ \A i \in 1..Len(out) : out[i][2] # "Noop"
  /\ \A i, j \in 1..Len(out) : i < j => out[i][1] < out[j][1]

(* ---- case emission for the spec -> code binding (one line per finished behaviour) ---- *)
FpJ(x) == [d |-> x.d, t |-> x.t]
Emit == pc = "done" =>
  PrintT(<<"CASE", ToJson([a |-> [p \in Paths |-> FpJ(A[p])], b |-> [p \in Paths |-> FpJ(B[p])],
                            e |-> [p \in Paths |-> FpJ(E[p])], trust |-> trust,
                            want |-> [i \in 1..Len(out) |-> [p |-> out[i][1], act |-> out[i][2]]]])>>)
=============================================================================
