SPECIFICATION Spec
CONSTANTS
  Files <- c_Files
  Chunks <- c_Chunks
  OldState <- c_Old
  Dir = "pull"
  Jobs = 2
  FixSize = TRUE
INVARIANTS Atomic RerunCompletes NoCrashDelivers
CHECK_DEADLOCK FALSE
