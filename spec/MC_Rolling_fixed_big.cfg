SPECIFICATION Spec
CONSTANTS
  M = 13
  W = 64
  K = 3
  Bytes = {0, 1, 7, 12}
  MaxWin = 4
  MaxOps = 6
  Variant = "fixed"
INVARIANTS PlainOK FastOK SameAsNew Agree Bounded
CHECK_DEADLOCK FALSE
