SPECIFICATION Spec
CONSTANTS
  Comps = {"", ".", "..", "n", "..n", "n..", "...", "L"}
  MaxLen = 4
INVARIANTS Guard RefusedOnlyIfClimbs Emit
CHECK_DEADLOCK FALSE
