---------------------------- MODULE MC_BisyncCrash ----------------------------
EXTENDS BisyncCrash
\* scenario classes of C08 over two base paths <<1>>, <<2>> (contents 1 < 2)
T2(x, y) == [p \in AllPaths |-> IF p = <<1>> THEN x ELSE IF p = <<2>> THEN y ELSE 0]
Sc(a, b, tr, e, last) == [a |-> a, b |-> b, tr |-> tr, e |-> e, last |-> last]
c_Scenarios ==
  { Sc(T2(1, 0), T2(0, 0), FALSE, Empty, Empty),                 \* create, first run without archive
    Sc(T2(1, 0), T2(0, 0), TRUE, Empty, Empty),                  \* create A->B
    Sc(T2(0, 2), T2(0, 0), TRUE, T2(0, 0), Empty),               \* create on the second path
    Sc(T2(2, 0), T2(1, 0), TRUE, T2(1, 0), T2(1, 0)),            \* propagate A->B
    Sc(T2(1, 0), T2(2, 0), TRUE, T2(1, 0), T2(1, 0)),            \* propagate B->A
    Sc(T2(0, 0), T2(1, 0), TRUE, T2(1, 0), T2(1, 0)),            \* delete A->B
    Sc(T2(1, 0), T2(0, 0), TRUE, T2(1, 0), T2(1, 0)),            \* delete B->A
    Sc(T2(1, 0), T2(2, 0), TRUE, Empty, Empty),                  \* both changed (no base)
    Sc(T2(1, 0), T2(2, 0), FALSE, Empty, Empty),                 \* both changed, first run
    Sc(T2(2, 0), T2(0, 0), TRUE, T2(1, 0), T2(1, 0)),            \* delete vs modify
    Sc(T2(2, 1), T2(1, 0), TRUE, T2(1, 1), T2(1, 1)),            \* two paths: propagate + delete
    Sc(T2(1, 2), T2(2, 1), FALSE, Empty, Empty),                 \* two conflicts at once
    Sc(T2(1, 1), T2(1, 1), TRUE, Empty, Empty) }                 \* converge only: archive write alone
=============================================================================
