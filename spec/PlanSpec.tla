------------------------------ MODULE PlanSpec ------------------------------
(* The one-way planner build_plan (src/bin/copia/plan.rs) as the loop the code runs,   *)
(* against the set definitions of property C19:                                        *)
(*   transfer = non-excluded source paths absent from dst or differing in size|mtime   *)
(*   skipped  = number of remaining non-excluded source paths                          *)
(*   delete   = only when requested: dst paths absent from src and not excluded        *)
(* Paths are indices 1..N in the component-wise order of the concrete names the        *)
(* harness uses (Names[i] gives the components).  Meta is <<size, mtime>> or None.      *)
EXTENDS PlanDefs

CONSTANTS Metas, PatLists

MetaN == Metas \cup {<<>>}

(* ---- the code's two loops ---- *)
VARIABLES src, dst, pats, del, i, phase2, transfer, skipped, delete
pvars == <<src, dst, pats, del, i, phase2, transfer, skipped, delete>>

PInit ==
  /\ src \in [1..N -> MetaN] /\ dst \in [1..N -> MetaN]
  /\ pats \in PatLists /\ del \in BOOLEAN
  /\ i = 1 /\ phase2 = "src" /\ transfer = <<>> /\ skipped = 0 /\ delete = <<>>

SrcStep ==
  /\ phase2 = "src" /\ i <= N
  /\ IF src[i] = None \/ Excl(i, pats) THEN UNCHANGED <<transfer, skipped>>
     ELSE IF Needs(src[i], dst[i]) THEN transfer' = Append(transfer, i) /\ UNCHANGED skipped
     ELSE skipped' = skipped + 1 /\ UNCHANGED transfer
  /\ i' = i + 1 /\ UNCHANGED <<src, dst, pats, del, phase2, delete>>

SrcDone ==
  /\ phase2 = "src" /\ i > N
  /\ phase2' = (IF del THEN "dst" ELSE "done") /\ i' = 1
  /\ UNCHANGED <<src, dst, pats, del, transfer, skipped, delete>>

DstStep ==
  /\ phase2 = "dst" /\ i <= N
  /\ delete' = IF dst[i] # None /\ src[i] = None /\ ~Excl(i, pats) THEN Append(delete, i) ELSE delete
  /\ i' = i + 1 /\ UNCHANGED <<src, dst, pats, del, phase2, transfer, skipped>>

DstDone ==
  /\ phase2 = "dst" /\ i > N /\ phase2' = "done"
  /\ UNCHANGED <<src, dst, pats, del, i, transfer, skipped, delete>>

PNext == SrcStep \/ SrcDone \/ DstStep \/ DstDone
PSpec == PInit /\ [][PNext]_pvars

PlanOK == phase2 = "done" =>
  /\ transfer = Asc(TransferDef(src, dst, pats))
  /\ skipped = SkippedDef(src, dst, pats)
  /\ delete = Asc(DeleteDef(src, dst, pats, del))
  /\ \A k \in 1..Len(transfer) : ~ExcludedDef(Names[transfer[k]], pats)       \* excludes protect (C15)
  /\ \A k \in 1..Len(delete) : ~ExcludedDef(Names[delete[k]], pats)
  /\ ~del => delete = <<>>                                                        \* deletes are opt-in (C15)
  /\ Len(transfer) + skipped = Cardinality({p \in 1..N : src[p] # None /\ ~ExcludedDef(Names[p], pats)})

PEmit == phase2 = "done" =>
  PrintT(<<"CASE", ToJson([src |-> src, dst |-> dst, pats |-> pats, del |-> del,
                           transfer |-> transfer, skipped |-> skipped, delete |-> delete])>>)
=============================================================================
