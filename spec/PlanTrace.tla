------------------------------ MODULE PlanTrace ------------------------------
(* Code -> spec for C19/C15: recorded results of the real glob_match, is_excluded and   *)
(* build_plan on seeded cases larger than the exhaustive scopes (longer patterns and    *)
(* texts over a richer alphabet, deeper paths, more files) are checked against the      *)
(* declarative definitions of GlobDefs / PlanSpec.                                      *)
EXTENDS Naturals, Integers, Sequences, FiniteSets, TLC, Json, IOUtils

Sigma == {}           \* unused by the definitions below (GlobDefs needs the names)
Variant == "fixed"
INSTANCE GlobDefs

Recs == ndJsonDeserialize(IOEnv.TRACE)

VARIABLES l, bad
vars == <<l, bad>>

NoneM == <<>>
Needs(s, d) == d = NoneM \/ s[1] # d[1] \/ s[2] # d[2]
RECURSIVE Asc(_)
Asc(S) == IF S = {} THEN <<>> ELSE LET m == CHOOSE x \in S : \A y \in S : x <= y IN <<m>> \o Asc(S \ {m})

GlobEv(e) == Match(e.pat, e.text) = e.res
ExclEv(e) == ExcludedDef(e.rel, e.pats) = e.res
PlanEv(e) ==
  LET n == Len(e.names)
      ex(p) == ExcludedDef(e.names[p], e.pats)
      tr == {p \in 1..n : e.src[p] # NoneM /\ ~ex(p) /\ Needs(e.src[p], e.dst[p])}
      sk == Cardinality({p \in 1..n : e.src[p] # NoneM /\ ~ex(p) /\ ~Needs(e.src[p], e.dst[p])})
      de == IF e.del THEN {p \in 1..n : e.dst[p] # NoneM /\ e.src[p] = NoneM /\ ~ex(p)} ELSE {}
  IN e.transfer = Asc(tr) /\ e.skipped = sk /\ e.delete = Asc(de)

Ok(e) == CASE e.ev = "glob" -> GlobEv(e) [] e.ev = "excl" -> ExclEv(e) [] e.ev = "plan" -> PlanEv(e) [] OTHER -> FALSE

Init == l = 1 /\ bad = {}
Next == /\ l <= Len(Recs)
        /\ bad' = IF Ok(Recs[l]) THEN bad ELSE bad \cup {l}
        /\ l' = l + 1
Spec == Init /\ [][Next]_vars
Report == (l = Len(Recs) + 1) => PrintT(<<"RESULT", ToJson([n |-> Len(Recs), bad |-> bad])>>)
=============================================================================
