SPECIFICATION Spec
CONSTANTS
  Files <- c_Files
  Chunks <- c_Chunks
  OldState <- c_Old
  Dir = "push"
  Jobs = 2
  FixSize = FALSE
INVARIANTS Atomic RerunCompletes NoCrashDelivers
CHECK_DEADLOCK FALSE
