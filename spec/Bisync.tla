------------------------------- MODULE Bisync -------------------------------
(* The bisync state machine over BisyncDefs: user edits, archive faults and runs; the    *)
(* listed properties (C02, C06, C07) as invariants on what the next Run would do.         *)
EXTENDS BisyncDefs

(* ---- machine ---- *)
CONSTANTS Editable, InitContents
VARIABLES A, B, trusted, E, last
vars == <<A, B, trusted, E, last>>

Init == /\ A = Empty /\ B = Empty /\ trusted = FALSE /\ E = Empty /\ last = Empty

Write(side, p, c) == /\ p \in Editable /\ c \in 1..C
                     /\ IF side = "A" THEN A' = [A EXCEPT ![p] = c] /\ A[p] # c /\ UNCHANGED B
                                      ELSE B' = [B EXCEPT ![p] = c] /\ B[p] # c /\ UNCHANGED A
                     /\ UNCHANGED <<trusted, E, last>>
Delete(side, p) == /\ p \in Editable
                   /\ IF side = "A" THEN A[p] # 0 /\ A' = [A EXCEPT ![p] = 0] /\ UNCHANGED B
                                    ELSE B[p] # 0 /\ B' = [B EXCEPT ![p] = 0] /\ UNCHANGED A
                   /\ UNCHANGED <<trusted, E, last>>
ArchiveFault == /\ trusted /\ trusted' = FALSE /\ E' = Empty /\ UNCHANGED <<A, B, last>>     \* lost / damaged / foreign: all untrusted
Run == LET r == RunResult(A, B, trusted, E) IN
       /\ ~r.over
       /\ A' = r.a /\ B' = r.b /\ trusted' = TRUE /\ E' = r.common
       /\ last' = NextLast(r.a, r.b)

Next == \/ \E s \in {"A", "B"}, p \in AllPaths, c \in 1..C : Write(s, p, c)
        \/ \E s \in {"A", "B"}, p \in AllPaths : Delete(s, p)
        \/ ArchiveFault
        \/ Run
Spec == Init /\ [][Next]_vars

\* state invariants: what the next Run would do satisfies every property
R == RunResult(A, B, trusted, E)
NoLoss == ~R.over => NoLossEdge(A, B, last, R)
Converged == ~R.over => ConvergedEdge(R)
ConflictShape == ~R.over => ConflictShapeEdge(A, B, trusted, E, R)
NoBaseNoDelete == (~trusted /\ ~R.over) => NoBaseNoDeleteEdge(A, B, R)
MirrorSym == MirrorEdge(A, B, trusted, E, R)
TypeOK == A \in Tree /\ B \in Tree /\ E \in Tree /\ last \in Tree
=============================================================================
