Logging is disabled (Z3SolverContext.debug = false). Activate with --debug.
