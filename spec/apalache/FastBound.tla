------------------------------ MODULE FastBound ------------------------------
(* Growth item (DESIGN 10.7): the lazy-modulo registers of FastRollingChecksum never reach     *)
(* 2^64 between two normalisations, with the TRUE magnitudes (M = 65521, K = 5000 operations,   *)
(* windows up to 65536 bytes) that TLC's 32-bit integers cannot evaluate.  Checked with          *)
(* Apalache as an inductive invariant:                                                           *)
(*     Init => IndInv        IndInv /\ Next => IndInv'        IndInv => NoOverflow               *)
(* The registers are modelled by their magnitudes only (the digest's correctness is Rolling.tla). *)
EXTENDS Integers

M == 65521
K == 5000
NMAX == 65536
AMAX == M + K * (M + 255)
TWO64 == 18446744073709551616

VARIABLES
  \* @type: Int;
  a,
  \* @type: Int;
  b,
  \* @type: Int;
  n,
  \* @type: Int;
  rolls

Init == /\ a \in 0..(M - 1) /\ b \in 0..(M - 1) /\ n \in 0..NMAX /\ rolls = 0

Norm(a2, b2, r2) == IF r2 >= K THEN /\ a' \in 0..(M - 1) /\ b' \in 0..(M - 1) /\ rolls' = 0
                     ELSE /\ a' = a2 /\ b' = b2 /\ rolls' = r2

Roll == \E old \in 0..255, new \in 0..255 :
          /\ n >= 1
          /\ LET a2 == a + M + new - old
                 b2 == b + M * n + a2 - n * old
             IN Norm(a2, b2, rolls + 1)
          /\ UNCHANGED n
Push == \E x \in 0..255 :
          /\ n < NMAX
          /\ LET a2 == a + x
                 b2 == b + a2
             IN Norm(a2, b2, rolls + 1)
          /\ n' = n + 1
New == /\ a' \in 0..(M - 1) /\ b' \in 0..(M - 1) /\ n' \in 0..NMAX /\ rolls' = 0
Next == Roll \/ Push \/ New

IndInv == /\ rolls \in 0..(K - 1) /\ n \in 0..NMAX
          /\ a >= 0 /\ a <= M + rolls * (M + 255)
          /\ b >= 0 /\ b <= M + rolls * (M * NMAX + AMAX)
IndInit == /\ rolls \in 0..(K - 1) /\ n \in 0..NMAX /\ a \in Nat /\ b \in Nat /\ IndInv
NoOverflow == a < TWO64 /\ b < TWO64 /\ a + M + 255 < TWO64 /\ b + M * NMAX + AMAX < TWO64
=============================================================================
