SPECIFICATION Spec
CONSTANTS
  Sigma = {"a", "b", "*", "?", ".", "/"}
  L = 4
  Variant = "fixed"
INVARIANTS GlobOK ExcludeOK Emit
CHECK_DEADLOCK FALSE
