------------------------------- MODULE HubSync -------------------------------
(* `copia hub-sync LOCAL TARGET` (src/bin/copia/hub.rs) for several clients against one hub,   *)
(* at the granularity of hub requests (each atomic on the hub: C03).  A run is                   *)
(*     List -> for every local file in path order: skip if the listed hash equals the local       *)
(*             one, else CAS-Put(expected = listed hash or absent)  -> exit 0 iff no CAS lost       *)
(* Runs of different clients interleave between requests, so a listing can be stale.              *)
(* hub[p] = content at path p (0 absent); conf = set of <<p, c>> conflict-copies.                 *)
EXTENDS Naturals, Sequences, FiniteSets, TLC, Json

CONSTANTS Clients, NP, C, Locals          \* Locals[c] : [1..NP -> 0..C], the client's local tree

VARIABLES hub, conf, pc, snap, idx, stats, interfered, committedBy, log, fin
vars == <<hub, conf, pc, snap, idx, stats, interfered, committedBy, log, fin>>
\* fin[c] : verdict of the success / failure clauses evaluated at the instant c's run finished
\* pc[c] : "idle" | "put" | "done";  idx[c] : next local path;  stats[c] = [sent, skipped, conflicts]
\* interfered[c] : some other client's request took effect during c's run
\* committedBy[p] : who wrote the live content of p last (0 = initial)

CONSTANT HubInit
Init == /\ hub = HubInit /\ conf = {}
        /\ pc = [c \in Clients |-> "idle"] /\ snap = [c \in Clients |-> HubInit] /\ idx = [c \in Clients |-> 1]
        /\ stats = [c \in Clients |-> [sent |-> 0, skipped |-> 0, conflicts |-> 0]]
        /\ interfered = [c \in Clients |-> FALSE] /\ committedBy = [p \in 1..NP |-> 0] /\ log = <<>>
        /\ fin = [c \in Clients |-> "none"]

Running == {c \in Clients : pc[c] = "put"}
Touch(c) == [d \in Clients |-> IF d # c /\ d \in Running THEN TRUE ELSE interfered[d]]

List(c) == /\ pc[c] = "idle"
           /\ snap' = [snap EXCEPT ![c] = hub] /\ pc' = [pc EXCEPT ![c] = "put"] /\ idx' = [idx EXCEPT ![c] = 1]
           /\ stats' = [stats EXCEPT ![c] = [sent |-> 0, skipped |-> 0, conflicts |-> 0]]
           /\ interfered' = [interfered EXCEPT ![c] = FALSE]
           /\ log' = Append(log, <<c, "list">>) /\ UNCHANGED <<hub, conf, committedBy, fin>>

Step(c) == /\ pc[c] = "put" /\ idx[c] <= NP
           /\ LET p == idx[c]  mine == Locals[c][p] IN
              IF mine = 0 THEN UNCHANGED <<hub, conf, stats, interfered, committedBy, log>>                     \* no such local file
              ELSE IF snap[c][p] = mine THEN stats' = [stats EXCEPT ![c].skipped = @ + 1] /\ UNCHANGED <<hub, conf, interfered, committedBy, log>>
              ELSE IF hub[p] = snap[c][p]
                   THEN /\ hub' = [hub EXCEPT ![p] = mine] /\ committedBy' = [committedBy EXCEPT ![p] = c]
                        /\ stats' = [stats EXCEPT ![c].sent = @ + 1] /\ interfered' = Touch(c)
                        /\ log' = Append(log, <<c, "commit", p>>) /\ UNCHANGED conf
                   ELSE /\ conf' = conf \cup {<<p, mine>>} /\ stats' = [stats EXCEPT ![c].conflicts = @ + 1] /\ interfered' = Touch(c)
                        /\ log' = Append(log, <<c, "conflict", p>>) /\ UNCHANGED <<hub, committedBy>>
           /\ idx' = [idx EXCEPT ![c] = @ + 1] /\ UNCHANGED <<pc, snap, fin>>

LandsNow(c) == \A p \in 1..NP : (Locals[c][p] # 0 => hub[p] = Locals[c][p]) /\ (Locals[c][p] = 0 => hub[p] = snap[c][p])
RetrievableNow(c) == \A p \in 1..NP : Locals[c][p] # 0 => (hub[p] = Locals[c][p] \/ <<p, Locals[c][p]>> \in conf \/ committedBy[p] \notin {0, c})
Finish(c) == /\ pc[c] = "put" /\ idx[c] > NP /\ pc' = [pc EXCEPT ![c] = "done"]
             /\ fin' = [fin EXCEPT ![c] = IF stats[c].conflicts = 0 /\ ~interfered[c] /\ ~LandsNow(c) THEN "not-landed"
                                           ELSE IF ~RetrievableNow(c) THEN "lost" ELSE "ok"]
             /\ UNCHANGED <<hub, conf, snap, idx, stats, interfered, committedBy, log>>
Again(c) == /\ pc[c] = "done" /\ Len(log) < 12 /\ pc' = [pc EXCEPT ![c] = "idle"]
            /\ UNCHANGED <<hub, conf, snap, idx, stats, interfered, committedBy, log, fin>>

Next == \E c \in Clients : List(c) \/ Step(c) \/ Finish(c) \/ Again(c)
Spec == Init /\ [][Next]_vars

ExitOK(c) == stats[c].conflicts = 0
Retrievable(c, p) == hub[p] = Locals[c][p] \/ <<p, Locals[c][p]>> \in conf

\* C13: success clause (a run nobody interfered with lands the local tree and touches nothing else) and failure clause
\* (every local file is retrievable - at its path, as a conflict-copy, or replaced by a later commit of a client that had
\* listed it), both evaluated when the run finishes
Lands == \A c \in Clients : fin[c] # "not-landed"
NothingLost == \A c \in Clients : fin[c] # "lost"
\* an immediate second run of the same client, with nobody in between, sends nothing
SecondRunIdle == \A c \in Clients : (pc[c] = "done" /\ ~interfered[c] /\ stats[c].conflicts = 0 /\ Len(log) >= 2
                                        /\ \E i \in 1..(Len(log) - 1) : log[i] = <<c, "list">> /\ \A j \in i..Len(log) : log[j][1] = c
                                        /\ \E k \in 1..(i - 1) : log[k] = <<c, "list">> /\ \A m \in k..i : log[m][1] = c)
                                     => stats[c].sent = 0
Emit == TRUE
=============================================================================
