------------------------------- MODULE Rolling -------------------------------
(* The two rolling-checksum types of src/checksum.rs as register machines, against    *)
(* their definition  a = sum x_i mod M,  b = sum (n-i) x_i mod M  (i from 0).          *)
(*                                                                                     *)
(*   plain : RollingChecksum      - 32-bit registers; parameter W is the register      *)
(*           width (0 = unbounded) so that wrap-around is part of the model            *)
(*   fast  : FastRollingChecksum  - 64-bit registers, reduction every K operations     *)
(*                                                                                     *)
(* Variant "orig"  = the formulas of the pinned commit (wrapping accumulate in `new`,  *)
(*                   wrapping_sub before `% MOD` in `roll`): TLC finds the violation.   *)
(* Variant "fixed" = the formulas after the fix: commit (wide accumulate, add-M-then-  *)
(*                   subtract).  Small M, W make every borrow / wrap case reachable.    *)
EXTENDS Naturals, Integers, Sequences, TLC, Json

CONSTANTS M, W, K, Bytes, MaxWin, MaxOps, Variant

VARIABLES win, pl, fa, hist
vars == <<win, pl, fa, hist>>

Wr(x) == IF W = 0 THEN x ELSE x % W          \* value left in a W-wide register (floor mod: x may be negative)

RECURSIVE SumA(_), SumB(_)
SumA(s) == IF s = <<>> THEN 0 ELSE Head(s) + SumA(Tail(s))
SumB(s) == IF s = <<>> THEN 0 ELSE Len(s) * Head(s) + SumB(Tail(s))   \* first byte weighs n
DefA(s) == SumA(s) % M
DefB(s) == SumB(s) % M

(* ---- plain type ---- *)
RECURSIVE AccA(_, _), AccB(_, _)
AccA(s, acc) == IF s = <<>> THEN acc ELSE AccA(Tail(s), Wr(acc + Head(s)))
AccB(s, acc) == IF s = <<>> THEN acc ELSE AccB(Tail(s), Wr(acc + Wr(Len(s) * Head(s))))

PlainNew(s) ==
  IF Variant = "orig"
    THEN [a |-> AccA(s, 0) % M, b |-> AccB(s, 0) % M, n |-> Len(s)]
    ELSE [a |-> SumA(s) % M, b |-> SumB(s) % M, n |-> Len(s)]        \* 64-bit accumulators: no wrap below n ~ 3.8e8

PlainRoll(c, old, new) ==
  IF Variant = "orig"
    THEN LET a2 == Wr(Wr(c.a - old) + new) % M
             b2 == Wr(Wr(c.b - Wr(c.n * old)) + a2) % M
         IN [a |-> a2, b |-> b2, n |-> c.n]
    ELSE LET a2 == (c.a + M - old + new) % M
             sub == (c.n * old) % M
             b2 == (c.b + M - sub + a2) % M
         IN [a |-> a2, b |-> b2, n |-> c.n]

PlainPush(c, x) ==
  LET a2 == Wr(c.a + x) % M
      b2 == Wr(c.b + a2) % M
  IN [a |-> a2, b |-> b2, n |-> c.n + 1]

PlainDigest(c) == <<c.b, c.a>>

(* ---- fast type ---- *)
FastNew(s) == [a |-> SumA(s) % M, b |-> SumB(s) % M, n |-> Len(s), rolls |-> 0]
Norm(c) == IF c.rolls >= K THEN [c EXCEPT !.a = @ % M, !.b = @ % M, !.rolls = 0] ELSE c
FastRoll(c, old, new) ==
  LET a2 == c.a + M + new - old
      b2 == c.b + M * c.n + a2 - c.n * old
  IN Norm([a |-> a2, b |-> b2, n |-> c.n, rolls |-> c.rolls + 1])
FastPush(c, x) ==
  LET a2 == c.a + x
      b2 == c.b + a2
  IN Norm([a |-> a2, b |-> b2, n |-> c.n + 1, rolls |-> c.rolls + 1])
FastDigest(c) == <<c.b % M, c.a % M>>

(* ---- machine ---- *)
Windows == UNION {[1..n -> Bytes] : n \in 0..MaxWin}

Init == \E s \in Windows :
  /\ win = s /\ pl = PlainNew(s) /\ fa = FastNew(s)
  /\ hist = <<[op |-> "new", data |-> s]>>

Push(x) ==
  /\ Len(win) < MaxWin /\ Len(hist) < MaxOps
  /\ win' = Append(win, x)
  /\ pl' = PlainPush(pl, x) /\ fa' = FastPush(fa, x)
  /\ hist' = Append(hist, [op |-> "push", x |-> x])

Roll(x) ==
  /\ Len(win) >= 1 /\ Len(hist) < MaxOps
  /\ win' = Append(Tail(win), x)
  /\ pl' = PlainRoll(pl, Head(win), x) /\ fa' = FastRoll(fa, Head(win), x)
  /\ hist' = Append(hist, [op |-> "roll", x |-> x])

Next == \E x \in Bytes : Push(x) \/ Roll(x)
Spec == Init /\ [][Next]_vars

(* ---- property C17 ---- *)
Def == <<DefB(win), DefA(win)>>
PlainOK == PlainDigest(pl) = Def /\ pl.a < M /\ pl.b < M /\ pl.n = Len(win)
FastOK  == FastDigest(fa) = Def /\ fa.n = Len(win)
SameAsNew == PlainDigest(pl) = PlainDigest(PlainNew(win)) /\ FastDigest(fa) = FastDigest(FastNew(win))
Agree == PlainDigest(pl) = FastDigest(fa)
Bounded == fa.a < 2147483647 \div 4 /\ fa.b < 2147483647 \div 4     \* the model itself never nears TLC's int range

(* behaviours for the spec -> code replay: one line per maximal behaviour *)
Emit == Len(hist) = MaxOps =>
  PrintT(<<"CASE", ToJson([ops |-> hist, want |-> [hi |-> Def[1], lo |-> Def[2]]])>>)
=============================================================================
