SPECIFICATION Spec
CONSTANTS
  Sym = {"R1", "H"}
  MaxLen = 2
  Bs = {1}
  WeakMode = "split"
INVARIANTS C16Holds
CHECK_DEADLOCK FALSE
