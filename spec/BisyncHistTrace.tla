--------------------------- MODULE BisyncHistTrace ---------------------------
(* Monitor for C02 / C06 / C07 on seeded long histories of the real `copia bisync` over        *)
(* universes larger than the exhaustive one: several base paths, nested directories, hostile     *)
(* names, three contents plus an empty and a multi-chunk file, user edits and deletions of        *)
(* conflict-copies, archive faults of every kind, file / directory clashes (runs that abort).     *)
(* Each record is one run: trees as arrays over the record's own name list (content id, 0 =         *)
(* absent), fam[i] = indices of name i and of its conflict-copies (<name>.conflict-...), the         *)
(* ghost `last` maintained along the history (what both sides held when the previous run             *)
(* completed), trust before / after, exit status.  No Conform here: the formulas are the              *)
(* properties themselves, on the observed pair.                                                        *)
EXTENDS Integers, Naturals, Sequences, FiniteSets, TLC, Json, IOUtils

Recs == ndJsonDeserialize(IOEnv.TRACE)
VARIABLES l, bad
vars == <<l, bad>>

N(e) == Len(e.A)
Fam(e, i) == {e.fam[i][k] : k \in 1..Len(e.fam[i])}
SurvivesIn(e, t, i, v) == \E j \in Fam(e, i) : t[j] = v

MayVanish(e, i, mine, other) == e.last[i] = mine[i] /\ other[i] # mine[i]

Failed(e) ==
  LET completed == e.completed IN
     (IF \A i \in 1..N(e) :
            /\ (e.A[i] # 0 /\ ~MayVanish(e, i, e.A, e.B)) => (SurvivesIn(e, e.A2, i, e.A[i]) /\ (completed => SurvivesIn(e, e.B2, i, e.A[i])))
            /\ (e.B[i] # 0 /\ ~MayVanish(e, i, e.B, e.A)) => (SurvivesIn(e, e.B2, i, e.B[i]) /\ (completed => SurvivesIn(e, e.A2, i, e.B[i])))
      THEN {} ELSE {"C02"})
  \cup (IF completed /\ ~(e.A2 = e.B2 /\ e.E2 = e.A2 /\ e.tr2) THEN {"C06"} ELSE {})
  \* a leftover staging name (hidden from the projection) is an ordinary file to copia: not a fixpoint then
  \cup (IF e.tr /\ ~e.stg /\ e.A = e.B /\ e.E = e.A /\ ~(e.A2 = e.A /\ e.B2 = e.B /\ e.E2 = e.E /\ e.nplan \in {0, -1} /\ e.exit = 0) THEN {"C06"} ELSE {})
  \* the same start state run with the roots named in the other order ends in the same trees (altA2 = A2 when not re-run)
  \cup (IF e.altA2 # e.A2 \/ e.altB2 # e.B2 THEN {"C06"} ELSE {})
  \* directed scenarios: a divergent edit resolves, on both sides, to the version with the greater digest AT the path
  \cup (IF completed /\ \E k \in 1..Len(e.want_at) : e.A2[e.want_at[k][1]] # e.want_at[k][2] \/ e.B2[e.want_at[k][1]] # e.want_at[k][2] THEN {"C06"} ELSE {})
  \cup (IF ~e.tr /\ ~(\A i \in 1..N(e) : (e.A[i] # 0 => e.A2[i] # 0) /\ (e.B[i] # 0 => e.B2[i] # 0)) THEN {"C07"} ELSE {})
  \cup (IF ~e.tr /\ completed /\ ~(\A i \in 1..N(e) : (e.A[i] # 0 => SurvivesIn(e, e.A2, i, e.A[i]) /\ SurvivesIn(e, e.B2, i, e.A[i]))
                                                      /\ (e.B[i] # 0 => SurvivesIn(e, e.A2, i, e.B[i]) /\ SurvivesIn(e, e.B2, i, e.B[i]))) THEN {"C07"} ELSE {})

Init == l = 1 /\ bad = {}
Next == /\ l <= Len(Recs) /\ bad' = bad \cup {<<l, q>> : q \in Failed(Recs[l])} /\ l' = l + 1
Spec == Init /\ [][Next]_vars
Report == (l = Len(Recs) + 1) => PrintT(<<"RESULT", ToJson([n |-> Len(Recs), bad |-> bad])>>)
=============================================================================
