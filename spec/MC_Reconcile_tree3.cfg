SPECIFICATION Spec
CONSTANTS
  Digests = {1, 2}
  Types = {"File"}
  Paths = {1, 2, 3}
INVARIANTS TriplesOK PlanOK Emit
CHECK_DEADLOCK FALSE
