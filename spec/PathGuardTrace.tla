---------------------------- MODULE PathGuardTrace ----------------------------
(* Code -> spec for C11: one record per client path string sent as Get, Put (with content) and  *)
(* Delete to a real `copia serve` whose every libc file call was logged by the shim (roots =      *)
(* "/", start-up reads whitelisted by an empty-session calibration), followed by a fixed probe    *)
(* sequence; sentinel files next to the served directory are compared before / after.             *)
(*   Monitor : no call after the prologue SUCCEEDED in opening, creating, renaming or removing     *)
(*             a path outside ROOT; sentinels and ROOT's parent listing unchanged; a refused path    *)
(*             got error replies, created nothing, and the probe replies equal a fresh session's     *)
(*   Conform : refused by the server  <=>  PathGuard!Refused                                         *)
EXTENDS Naturals, Sequences, TLC, Json, IOUtils

Recs == ndJsonDeserialize(IOEnv.TRACE)
VARIABLES l, bad, nonconf
vars == <<l, bad, nonconf>>

SpecRefused(e) == e.abs \/ (Len(e.comps) >= 2 /\ e.comps[1] = "") \/ \E i \in 1..Len(e.comps) : e.comps[i] = ".."

Failed(e) ==
     (IF e.outside = <<>> THEN {} ELSE {"effect-outside-root"})
  \cup (IF e.sentinels_ok THEN {} ELSE {"sentinel-changed"})
  \cup (IF e.refused_by_server /\ ~(e.tree_unchanged /\ e.probe_equal /\ e.alive) THEN {"refusal-not-clean"} ELSE {})
  \cup (IF SpecRefused(e) /\ ~e.refused_by_server THEN {"climbing-path-accepted"} ELSE {})

Conform(e) == e.refused_by_server = SpecRefused(e)

Init == l = 1 /\ bad = {} /\ nonconf = {}
Next == /\ l <= Len(Recs)
        /\ bad' = bad \cup {<<l, q>> : q \in Failed(Recs[l])}
        /\ nonconf' = IF Conform(Recs[l]) THEN nonconf ELSE nonconf \cup {l}
        /\ l' = l + 1
Spec == Init /\ [][Next]_vars
Report == (l = Len(Recs) + 1) => PrintT(<<"RESULT", ToJson([n |-> Len(Recs), bad |-> bad, nonconf |-> nonconf])>>)
=============================================================================
