---------------------------- MODULE BisyncCrash ----------------------------
(* TLC search over BisyncCrashDefs: every scenario class of C08, a crash before any call of  *)
(* the run's program, and recovery; C08's clauses as invariants.                               *)
EXTENDS BisyncCrashDefs

(* ---- machine: scenario, run with a crash before any call, recovery ---- *)
CONSTANT Scenarios          \* set of records [a, b, tr, e, last]
VARIABLES sc, fs, pc, phase
cvars == <<sc, fs, pc, phase>>

Prog(s) == Program(s.a, s.b, s.tr, s.e, s.tr)
Fin(s) == RunResult(s.a, s.b, s.tr, s.e)

CInit == /\ sc \in Scenarios /\ ~Fin(sc).over
         /\ fs = FS0(sc.a, sc.b, sc.tr) /\ pc = 1 /\ phase = "run"

DoStep == /\ phase = "run" /\ pc <= Len(Prog(sc))
          /\ fs' = Exec(fs, Prog(sc)[pc]) /\ pc' = pc + 1 /\ UNCHANGED <<sc, phase>>
Finish == /\ phase = "run" /\ pc > Len(Prog(sc)) /\ phase' = "done" /\ UNCHANGED <<sc, fs, pc>>
Crash == /\ phase = "run" /\ pc <= Len(Prog(sc)) /\ phase' = "crashed" /\ UNCHANGED <<sc, fs, pc>>

\* recovery = bisync again on what is on disk (non-staging names); the archive found decides the base
RecBase(s, f) == IF f.arch = "old" THEN [tr |-> TRUE, e |-> s.e] ELSE IF f.arch = "new" THEN [tr |-> TRUE, e |-> Fin(s).common] ELSE [tr |-> FALSE, e |-> Empty]
Recovered(s, f) == RunResult(f.A, f.B, RecBase(s, f).tr, RecBase(s, f).e)
Recover == /\ phase = "crashed"
           /\ LET r == Recovered(sc, fs) IN
                /\ ~r.over
                /\ fs' = [fs EXCEPT !.A = r.a, !.B = r.b, !.SA = Empty, !.SB = Empty, !.arch = "new"]
           /\ phase' = "recovered" /\ UNCHANGED <<sc, pc>>
CNext == DoStep \/ Finish \/ Crash \/ Recover
CSpec == CInit /\ [][CNext]_cvars

\* invariants
Atomic == NoPartial(fs)
RecordNotAhead == phase \in {"run", "crashed"} => ArchNotAhead(fs, Fin(sc))
ArchiveWhole == fs.arch \in {"old", "absent", "new"}
RefinesRun == phase = "done" => (fs.A = Fin(sc).a /\ fs.B = Fin(sc).b /\ fs.arch = "new")          \* no crash: exactly Bisync's Run
RecoveryOK == phase = "recovered" =>
  /\ fs.A = Fin(sc).a /\ fs.B = Fin(sc).b                                                            \* the uninterrupted result
  /\ NoLossEdge(sc.a, sc.b, sc.last, [a |-> fs.A, b |-> fs.B])
=============================================================================
