SPECIFICATION Spec
INVARIANTS Rejects Emit
CHECK_DEADLOCK FALSE
