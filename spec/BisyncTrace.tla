----------------------------- MODULE BisyncTrace -----------------------------
(* Binding G for bisync: every edge of the IMPLEMENTATION's transition graph (a state     *)
(* materialised on disk, the real `copia bisync` executed, the result projected back) is   *)
(* one record.  Per edge:                                                                  *)
(*   Conform  - the projected result equals BisyncDefs!RunResult on the projected input     *)
(*              (trees, archive entries, trust), and the ghost `last` follows NextLast       *)
(*   Monitor  - the property formulas hold on the OBSERVED pair: NoLoss (C02), Converged /   *)
(*              ConflictShape / idempotence / order+mtime independence (C06),                 *)
(*              NoBaseNoDelete (C07), dry-run clauses (C15)                                   *)
(* Trees are arrays over PathList (the byte order of the rendered names).                    *)
EXTENDS BisyncDefs, Json, IOUtils

Recs == ndJsonDeserialize(IOEnv.TRACE)
PathList == SortedPaths(AllPaths)
NP == Len(PathList)
Idx(p) == CHOOSE i \in 1..NP : PathList[i] = p
IdxMap == [p \in AllPaths |-> Idx(p)]
T(arr) == [p \in AllPaths |-> arr[IdxMap[p]]]

VARIABLES l, bad, nonconf
vars == <<l, bad, nonconf>>

Obs(e) == [a |-> T(e.t.A), b |-> T(e.t.B), common |-> T(e.t.E), nconf |-> e.nconf, over |-> FALSE]

\* names of the failed property formulas on one observed run edge
Failed(e) ==
  LET a == T(e.s.A)  b == T(e.s.B)  z == T(e.s.E)  la == T(e.s.last)  r == Obs(e)
      completed == e.exit = 0 \/ (e.exit = 1 /\ e.nconf > 0 /\ e.t.tr)
      wasFixpoint == e.s.tr /\ e.s.A = e.s.B /\ e.s.E = e.s.A
  IN   (IF NoLossEdge(a, b, la, r) THEN {} ELSE {"C02"})
  \cup (IF completed /\ ~(r.a = r.b /\ r.common = r.a /\ e.t.tr) THEN {"C06"} ELSE {})
  \cup (IF completed /\ ~ConflictShapeEdge(a, b, e.s.tr, z, r) THEN {"C06"} ELSE {})
  \cup (IF wasFixpoint /\ ~(e.t.A = e.s.A /\ e.t.B = e.s.B /\ e.t.E = e.s.E /\ e.nplan \in {0, -1} /\ e.exit = 0) THEN {"C06"} ELSE {})
  \cup (IF ~e.swap_ok \/ ~e.mtime_ok THEN {"C06"} ELSE {})
  \cup (IF ~e.s.tr /\ ~NoBaseNoDeleteEdge(a, b, r) THEN {"C07"} ELSE {})
  \cup (IF ~e.dry_unchanged THEN {"C15"} ELSE {})       \* a dry run taken just before this run (fault edges) changed something

Conform(e) ==
  LET r == RunResult(T(e.s.A), T(e.s.B), e.s.tr, T(e.s.E)) IN
  /\ ~r.over
  /\ r.a = T(e.t.A) /\ r.b = T(e.t.B) /\ r.common = T(e.t.E) /\ e.t.tr
  /\ e.nconf = Cardinality({p \in PlanPaths(T(e.s.A), T(e.s.B), IF e.s.tr THEN T(e.s.E) ELSE Empty) :
                              Act(T(e.s.A)[p], T(e.s.B)[p], (IF e.s.tr THEN T(e.s.E) ELSE Empty)[p]) \in {"ConflictBothChanged", "ConflictDeleteVsModify"}})
  /\ (e.exit = 1) = (r.nconf > 0) /\ e.exit \in {0, 1}
  /\ e.nplan = Cardinality(PlanPaths(T(e.s.A), T(e.s.B), IF e.s.tr THEN T(e.s.E) ELSE Empty))
  /\ T(e.t.last) = NextLast(r.a, r.b)

\* dry-run record: nothing may change, and the printed actions are exactly the plan
ActName(x) == x
DryFailed(e) ==
  LET a == T(e.s.A)  b == T(e.s.B)  base == IF e.s.tr THEN T(e.s.E) ELSE Empty
      want == {<<IdxMap[p], Act(a[p], b[p], base[p])>> : p \in PlanPaths(a, b, base)}
      got == {<<e.plan[i][1], e.plan[i][2]>> : i \in 1..Len(e.plan)}
  IN (IF e.unchanged /\ e.exit = 0 THEN {} ELSE {"C15"})
  \cup (IF got = want THEN {} ELSE {"C15"})

Init == l = 1 /\ bad = {} /\ nonconf = {}
Next == /\ l <= Len(Recs)
        /\ LET e == Recs[l] IN
           IF e.ev = "run"
             THEN /\ bad' = bad \cup {<<l, q>> : q \in Failed(e)}
                  /\ nonconf' = IF Conform(e) THEN nonconf ELSE nonconf \cup {l}
             ELSE /\ bad' = bad \cup {<<l, q>> : q \in DryFailed(e)}
                  /\ UNCHANGED nonconf
        /\ l' = l + 1
Spec == Init /\ [][Next]_vars
Report == (l = Len(Recs) + 1) => PrintT(<<"RESULT", ToJson([n |-> Len(Recs), bad |-> bad, nonconf |-> nonconf])>>)
=============================================================================
