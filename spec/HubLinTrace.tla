----------------------------- MODULE HubLinTrace -----------------------------
(* Monitor for C03 / C10 / C13 on recorded executions of real `copia serve` processes under     *)
(* the scheduling controller.  A record is one execution: initial tree, the history of calls      *)
(* and returns in real-time order (call = the last byte of the request was made available;         *)
(* return = the reply was read), the final tree.  The execution is ACCEPTED iff some                *)
(* linearization of HubAtomic - each operation taking effect atomically between its call and        *)
(* its return; a killed server's last operation may or may not take effect - yields exactly         *)
(* the observed replies and the observed final tree.  TLC searches the linearizations               *)
(* (one initial state per record; acceptance is reported per record).                                *)
(* HubAtomic: put commits iff the current content equals `exp`, otherwise its bytes go to            *)
(* <path>#<content> (the conflict-copy); a put whose bytes do not match its declared hash or          *)
(* length changes nothing; delete removes iff current = exp; get / list read one instant.             *)
EXTENDS Naturals, Sequences, FiniteSets, TLC, Json, IOUtils

Recs == ndJsonDeserialize(IOEnv.TRACE)

VARIABLES h, l, abs, pend, dn
vars == <<h, l, abs, pend, dn>>

Ev(i) == Recs[h].events[i]
NamesOf(r) == {r.names[i] : i \in 1..Len(r.names)}
Val(a, n) == IF n \in DOMAIN a THEN a[n] ELSE "none"
Put(a, n, v) == [m \in (DOMAIN a) \cup {n} |-> IF m = n THEN v ELSE a[m]]

OpOf(id) == LET i == CHOOSE i \in 1..Len(Recs[h].events) : Recs[h].events[i].t = "call" /\ Recs[h].events[i].id = id
            IN Recs[h].events[i].op

\* where a losing put's bytes go: <path>#<content>, unless that name already holds OTHER content (a client may have written
\* there as to any path) - nothing acknowledged or preserved is ever replaced by a write that does not commit
ConfKey(a, op) == IF Val(a, op.conf) \in {"none", op.c} THEN op.conf ELSE op.conf \o "~1"

Apply(op, a) ==
  CASE op.kind = "put" ->
         IF ~op.valid THEN [a |-> a, r |-> [r |-> "error"]]
         ELSE IF Val(a, op.path) = op.exp THEN [a |-> Put(a, op.path, op.c), r |-> [r |-> "committed", cur |-> op.c]]
         ELSE [a |-> Put(a, ConfKey(a, op), op.c), r |-> [r |-> "conflict", cur |-> Val(a, op.path)]]
    [] op.kind = "delete" ->
         IF Val(a, op.path) = op.exp THEN [a |-> Put(a, op.path, "none"), r |-> [r |-> "deleted", cur |-> "none"]]
         ELSE [a |-> a, r |-> [r |-> "refused", cur |-> Val(a, op.path)]]
    [] op.kind = "get" ->
         IF Val(a, op.path) = "none" THEN [a |-> a, r |-> [r |-> "error"]]
         ELSE [a |-> a, r |-> [r |-> "content", v |-> Val(a, op.path)]]
    [] op.kind = "list" -> [a |-> a, r |-> [r |-> "list", m |-> [n \in {x \in DOMAIN a : a[x] # "none"} |-> a[n]]]]

Matches(want, got) ==
  CASE want.r \in {"committed", "conflict", "deleted", "refused"} -> got.r = want.r /\ got.cur = want.cur
    [] want.r = "error" -> got.r = "error"
    [] want.r = "content" -> got.r = "content" /\ got.hash = want.v /\ got.body = want.v /\ got.len_ok
    [] want.r = "list" -> got.r = "list" /\ (Recs[h].relax_list \/ (DOMAIN got.map = DOMAIN want.m /\ \A n \in DOMAIN want.m : got.map[n] = want.m[n]))

Init == /\ h \in 1..Len(Recs) /\ l = 1 /\ abs = Recs[h].init /\ pend = {} /\ dn = <<>>

Call == /\ l <= Len(Recs[h].events) /\ Ev(l).t = "call"
        /\ pend' = pend \cup {Ev(l).id} /\ l' = l + 1 /\ UNCHANGED <<h, abs, dn>>
Ret == /\ l <= Len(Recs[h].events) /\ Ev(l).t = "ret"
       /\ \E i \in 1..Len(dn) : dn[i][1] = Ev(l).id /\ Matches(dn[i][2], Ev(l).reply)
                                  /\ dn' = [j \in 1..(Len(dn) - 1) |-> IF j < i THEN dn[j] ELSE dn[j + 1]]
       /\ l' = l + 1 /\ UNCHANGED <<h, abs, pend>>
Linearize == \E id \in pend :
       LET res == Apply(OpOf(id), abs) IN
       /\ abs' = res.a /\ pend' = pend \ {id} /\ dn' = Append(dn, <<id, res.r>>) /\ UNCHANGED <<h, l>>
Next == Call \/ Ret \/ Linearize
Spec == Init /\ [][Next]_vars

FinalOK == \A n \in (DOMAIN abs) \cup (DOMAIN Recs[h].final) : Val(abs, n) = Val(Recs[h].final, n)
Accepted == (l = Len(Recs[h].events) + 1 /\ FinalOK) => PrintT(<<"ACC", ToJson([h |-> h])>>)
=============================================================================
