--------------------------- MODULE ReconcileTrace ---------------------------
(* Code -> spec: every recorded call of the real reconcile_path (random 32-byte        *)
(* digests, equality classes taken by byte comparison) must return Table's decision.   *)
EXTENDS ReconcileDefs, TLC, Json, IOUtils

Recs == ndJsonDeserialize(IOEnv.TRACE)

VARIABLES l, bad
vars == <<l, bad>>

Fp(j) == [d |-> j.d, t |-> j.t]

Init == l = 1 /\ bad = {}
Next ==
  /\ l <= Len(Recs)
  /\ LET r == Recs[l]
         want == Table(Fp(r.a), Fp(r.b), Fp(r.z))
     IN bad' = IF want = r.act THEN bad ELSE bad \cup {l}
  /\ l' = l + 1
Spec == Init /\ [][Next]_vars

Consumed == l = Len(Recs) + 1
Report == (l = Len(Recs) + 1) =>
  PrintT(<<"RESULT", ToJson([n |-> Len(Recs), bad |-> bad])>>)
=============================================================================
