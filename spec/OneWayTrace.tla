----------------------------- MODULE OneWayTrace -----------------------------
(* Binding G for the one-way mirror: every recorded edge of the real `copia sync -r`          *)
(* (trees materialised with real names, bytes and mtimes; local, push and pull through the      *)
(* ssh stand-in; flags) is checked:                                                             *)
(*   Conform - the projected destination equals OneWayDefs!RunDst, the printed plan sizes        *)
(*             equal |Transfer|, |Skipped|, |Deletes|                                            *)
(*   Monitor - C04 (exactly the plan, to the second; failures reported and contained),            *)
(*             C14 (immediate second run: nothing planned, nothing changed),                      *)
(*             C15 (excludes protect, deletes opt-in, dry run touches nothing and prints the plan) *)
EXTENDS OneWayDefs, Json, IOUtils

Recs == ndJsonDeserialize(IOEnv.TRACE)
VARIABLES l, bad, nonconf
vars == <<l, bad, nonconf>>

RECURSIVE AscSeq(_)
AscSeq(S) == IF S = {} THEN <<>> ELSE LET m == CHOOSE x \in S : \A y \in S : x <= y IN <<m>> \o AscSeq(S \ {m})

Failed(e) ==
  LET tr == Transfer(e.names, e.src, e.dst, e.pats)
      de == Deletes(e.names, e.src, e.dst, e.pats, e.del)
      noop == e.dry \/ ShortCircuit(e.src, e.del)
  IN
  (IF e.dry THEN {}
   ELSE IF e.exit = 0
     THEN (IF noop THEN (IF e.dst2 = e.dst /\ e.src2 = e.src THEN {} ELSE {"C04"})
           ELSE IF C04Success(e.names, e.src, e.dst, e.pats, e.del, e.src2, e.dst2, e.staging) THEN {} ELSE {"C04"})
     ELSE (IF C04Failure(e.names, e.src, e.dst, e.pats, e.del, e.src2, e.dst2, e.reported) THEN {} ELSE {"C04"}))
  \cup (IF ~e.dry /\ e.exit = 0 /\ ~noop /\ e.second.ran
          /\ ~((e.second.known => (e.second.transfer = 0 /\ e.second.delete = 0)) /\ e.second.unchanged /\ e.second.exit = 0) THEN {"C14"} ELSE {})
  \cup (IF ~e.dry /\ e.exit = 0 /\ ~noop /\ e.sent_known /\ e.sent # Cardinality(tr) THEN {"C14"} ELSE {})         \* only what changed is sent (printed count, when readable)
  \cup (IF \E p \in Dom(e.names) : ExcludedDef(e.names[p], e.pats) /\ ~SameExact(e.dst2[p], e.dst[p]) THEN {"C15"} ELSE {})
  \cup (IF ~e.del /\ (\E p \in Dom(e.names) : e.dst[p] # Absent /\ e.dst2[p] = Absent) THEN {"C15"} ELSE {})
  \* (e.unsendable: a remote direction and a source name that is not UTF-8 - the run, dry or not, has to refuse or report
  \*  that file; what it prints for a name it cannot spell is not compared)
  \cup (IF e.dry /\ ~(e.dst2 = e.dst /\ e.src2 = e.src /\ e.staging = 0 /\ (e.exit = 0 \/ e.unsendable)) THEN {"C15"} ELSE {})
  \cup (IF e.dry /\ ~e.unsendable /\ ~ShortCircuit(e.src, e.del) /\ ~(e.printed_send = AscSeq(tr) /\ e.printed_delete = AscSeq(de)) THEN {"C15"} ELSE {})
  \* ... and a real run that reports success performs those very actions: every path the dry run lists under "delete" is gone,
  \* no other path is, every path it lists under "send" is there (the bytes and times of what was sent are C04's business)
  \cup (IF ~e.dry /\ e.exit = 0 /\ ~noop
          /\ ~(/\ \A p \in de : e.dst2[p] = Absent
               /\ \A p \in Dom(e.names) \ de : e.dst[p] # Absent => e.dst2[p] # Absent
               /\ \A p \in tr : e.dst2[p] # Absent) THEN {"C15"} ELSE {})

Conform(e) ==
  LET tr == Transfer(e.names, e.src, e.dst, e.pats)
      sk == Skipped(e.names, e.src, e.dst, e.pats)
      de == Deletes(e.names, e.src, e.dst, e.pats, e.del)
      want == RunDst(e.names, e.src, e.dst, e.pats, e.del, e.dry)
  IN /\ e.exit = 0
     /\ \A p \in Dom(e.names) : SameFile(e.dst2[p], want[p])
     /\ ShortCircuit(e.src, e.del) \/ (e.plan = <<Cardinality(tr), Cardinality(sk), Cardinality(de)>>)

Init == l = 1 /\ bad = {} /\ nonconf = {}
Next == /\ l <= Len(Recs)
        /\ bad' = bad \cup {<<l, q>> : q \in Failed(Recs[l])}
        /\ nonconf' = IF Conform(Recs[l]) THEN nonconf ELSE nonconf \cup {l}
        /\ l' = l + 1
Spec == Init /\ [][Next]_vars
Report == (l = Len(Recs) + 1) => PrintT(<<"RESULT", ToJson([n |-> Len(Recs), bad |-> bad, nonconf |-> nonconf])>>)
=============================================================================
