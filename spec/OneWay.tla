------------------------------- MODULE OneWay -------------------------------
(* TLC search over OneWayDefs: every source / destination tree over a small path universe    *)
(* with all metadata relations x exclude lists x --delete x --dry-run; one Run step each.      *)
(* Invariants: C04 (exactly the plan is delivered), C14 (a second run plans nothing),           *)
(* C15 (excluded paths untouched, no delete without --delete, dry run changes nothing).         *)
EXTENDS OneWayDefs

CONSTANTS Names, Metas, PatLists

MetaN == Metas \cup {Absent}
VARIABLES src, dst, pats, del, dry, phase, dst0
vars == <<src, dst, pats, del, dry, phase, dst0>>

Init == /\ src \in [Dom(Names) -> MetaN] /\ dst \in [Dom(Names) -> MetaN]
        /\ pats \in PatLists /\ del \in BOOLEAN /\ dry \in BOOLEAN
        /\ phase = "before" /\ dst0 = dst

Run == /\ phase = "before"
       /\ dst' = RunDst(Names, src, dst, pats, del, dry)
       /\ phase' = "after" /\ UNCHANGED <<src, pats, del, dry, dst0>>
Next == Run
Spec == Init /\ [][Next]_vars

ExactlyThePlan == phase = "after" /\ ~dry /\ ~ShortCircuit(src, del) => C04Success(Names, src, dst0, pats, del, src, dst, 0)
SecondRunEmpty == phase = "after" /\ ~dry /\ ~ShortCircuit(src, del) => C14Second(Names, src, dst, pats, del)
ExcludesProtect == phase = "after" => \A p \in Dom(Names) : ExcludedDef(Names[p], pats) => dst[p] = dst0[p]
DeleteOptIn == phase = "after" /\ ~del => \A p \in Dom(Names) : dst0[p] # Absent => dst[p] # Absent
DryTouchesNothing == phase = "after" /\ dry => dst = dst0

Emit == phase = "after" =>
  PrintT(<<"CASE", ToJson([src |-> src, dst |-> dst0, pats |-> pats, del |-> del, dry |-> dry, want |-> dst])>>)
=============================================================================
