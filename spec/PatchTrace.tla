------------------------------ MODULE PatchTrace ------------------------------
(* Code -> spec for C05 at real sizes: seeded byte/bit-level corruptions of real          *)
(* (basis, delta) pairs.  A record carries the corrupted delta's shape (ops as             *)
(* <<"C",off,len>> / <<"L",len>>, declared sizes), the real basis length, whether the      *)
(* bytes an independent applier produces hash to delta.checksum (indep_ok), and what both  *)
(* engines and the CLI reported.  The spec computes the patch machine's outcome class      *)
(* (DeltaDefs!Patch on lengths) - Conform - and requires: reported success only with        *)
(* bytes that hash to the checksum; never a panic / signal; CLI failure => exit 1.          *)
EXTENDS Naturals, Integers, Sequences, TLC, Json, IOUtils

Recs == ndJsonDeserialize(IOEnv.TRACE)
VARIABLES l, bad, nonconf
vars == <<l, bad, nonconf>>

RECURSIVE SumOf(_)
SumOf(ops) == IF ops = <<>> THEN 0 ELSE (IF Head(ops)[1] = "L" THEN Head(ops)[2] ELSE Head(ops)[3]) + SumOf(Tail(ops))

AsyncClass(e) ==
  IF \E i \in 1..Len(e.ops) : e.ops[i][1] = "C" /\ e.ops[i][2] + e.ops[i][3] > e.bsize THEN "InvalidCopyBounds"
  ELSE IF \E i \in 1..Len(e.ops) : e.ops[i][1] = "C" /\ e.ops[i][2] + e.ops[i][3] > e.blen THEN "Io"
  ELSE IF e.indep_ok THEN "Ok" ELSE "ChecksumMismatch"
SyncClass(e) == IF SumOf(e.ops) # e.ssize THEN "CorruptedDelta" ELSE AsyncClass(e)

Monitor(e) ==
  /\ e.sync # "PANIC" /\ e.async # "PANIC"
  /\ e.sync = "Ok" => e.sync_hash_ok
  /\ e.async = "Ok" => e.async_hash_ok
  /\ e.cli # -99 => (e.cli \in {0, 1} /\ (e.cli = 0 => e.cli_hash_ok))

Conform(e) == e.huge \/ (e.sync = SyncClass(e) /\ e.async = AsyncClass(e)
                          /\ (e.cli # -99 => ((e.cli = 0) = (AsyncClass(e) = "Ok" /\ e.bs_valid))))

Init == l = 1 /\ bad = {} /\ nonconf = {}
Next == /\ l <= Len(Recs)
        /\ bad' = IF Monitor(Recs[l]) THEN bad ELSE bad \cup {l}
        /\ nonconf' = IF Conform(Recs[l]) THEN nonconf ELSE nonconf \cup {l}
        /\ l' = l + 1
Spec == Init /\ [][Next]_vars
Report == (l = Len(Recs) + 1) => PrintT(<<"RESULT", ToJson([n |-> Len(Recs), bad |-> bad, nonconf |-> nonconf])>>)
=============================================================================
