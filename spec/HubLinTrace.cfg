SPECIFICATION Spec
INVARIANT Accepted
CHECK_DEADLOCK FALSE
