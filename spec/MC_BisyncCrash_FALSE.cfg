SPECIFICATION CSpec
CONSTANTS
  NB = 2
  C = 2
  MaxDepth = 1
  MaxK = 1
  FixStale = TRUE
  FixCollide = TRUE
  FixFsync = FALSE
  Scenarios <- c_Scenarios
INVARIANTS Atomic RecordNotAhead ArchiveWhole RefinesRun RecoveryOK
CHECK_DEADLOCK FALSE
