---------------------------- MODULE HubSessionTrace ----------------------------
(* Code -> spec for C12.  "session" records: a session enumerated by HubSession.tla, rendered   *)
(* to bytes and fed to a real `copia serve` under an address-space limit and a timeout, with     *)
(* the model's predicted replies / exit / final tree next to what was observed.  "cut" and         *)
(* "mutant" records: the same bytes closed at an arbitrary point / with random byte mutations.     *)
(*   Monitor : exit status 0 or 1 - never a signal, never a hang after the input is closed;         *)
(*             no tree change without a valid prologue and a well-formed request; replies of a       *)
(*             cut session are a prefix of the full session's; no reservation above the 1 MiB         *)
(*             frame bound (mmap sizes vs a calibration session)                                      *)
(*   Conform : replies, exit status and final tree equal HubSession's prediction                      *)
EXTENDS Naturals, Sequences, TLC, Json, IOUtils

Recs == ndJsonDeserialize(IOEnv.TRACE)
VARIABLES l, bad, nonconf
vars == <<l, bad, nonconf>>

IsPrefix(a, b) == Len(a) <= Len(b) /\ \A i \in 1..Len(a) : a[i] = b[i]

\* a session closed early answers a prefix of the full session's replies; closed inside a Put's content it may add the
\* hash-mismatch error for that unfinished Put
CutOK(got, want) == \/ IsPrefix(got, want)
                    \/ (Len(got) >= 1 /\ got[Len(got)] = "Error" /\ IsPrefix(SubSeq(got, 1, Len(got) - 1), want))

Failed(e) ==
     (IF e.exit \in {0, 1} /\ ~e.signaled /\ ~e.timed_out THEN {} ELSE {"crash-or-hang"})
  \cup (IF e.big_reservation THEN {"reservation-above-bound"} ELSE {})
  \cup (IF ~e.valid_request_seen /\ ~e.tree_unchanged THEN {"tree-changed-before-valid-request"} ELSE {})
  \cup (IF e.kind = "session" /\ e.want_exit \in {0, 1} /\ e.in_step_expected /\ ~(e.replies_c = e.want_replies_c) THEN {"out-of-step"} ELSE {})
  \cup (IF e.kind = "cut" /\ ~CutOK(e.replies_c, e.want_replies_c) THEN {"cut-replies-not-a-prefix"} ELSE {})

Conform(e) == e.kind # "session" \/ (e.replies_c = e.want_replies_c /\ e.exit = e.want_exit /\ e.f = e.want_f /\ e.conf = e.want_conf)

Init == l = 1 /\ bad = {} /\ nonconf = {}
Next == /\ l <= Len(Recs)
        /\ bad' = bad \cup {<<l, q>> : q \in Failed(Recs[l])}
        /\ nonconf' = IF Conform(Recs[l]) THEN nonconf ELSE nonconf \cup {l}
        /\ l' = l + 1
Spec == Init /\ [][Next]_vars
Report == (l = Len(Recs) + 1) => PrintT(<<"RESULT", ToJson([n |-> Len(Recs), bad |-> bad, nonconf |-> nonconf])>>)
=============================================================================
