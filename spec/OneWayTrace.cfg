SPECIFICATION Spec
CONSTANTS
  Sigma = {}
  Variant = "fixed"
INVARIANT Report
CHECK_DEADLOCK FALSE
