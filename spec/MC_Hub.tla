-------------------------------- MODULE MC_Hub --------------------------------
EXTENDS Hub, Json
PutR(p, e, c) == [op |-> "put", path |-> p, exp |-> e, c |-> c, hashok |-> TRUE]
BadPut(p, e, c) == [op |-> "put", path |-> p, exp |-> e, c |-> c, hashok |-> FALSE]
DelR(p, e) == [op |-> "delete", path |-> p, exp |-> e]
GetR(p) == [op |-> "get", path |-> p]
\* two clients that both saw the initial content 1 at f and now write 2 resp. 3; then one reads back
P_putput  == [s \in {1, 2} |-> IF s = 1 THEN <<PutR("f", "c1", "c2")>> ELSE <<PutR("f", "c1", "c3")>>]
P_putget  == [s \in {1, 2} |-> IF s = 1 THEN <<PutR("f", "c1", "c2")>> ELSE <<GetR("f")>>]
P_putdel  == [s \in {1, 2} |-> IF s = 1 THEN <<PutR("f", "c1", "c2")>> ELSE <<DelR("f", "c1"), GetR("f")>>]
P_badput  == [s \in {1, 2} |-> IF s = 1 THEN <<BadPut("f", "c1", "c2")>> ELSE <<PutR("f", "c1", "c3"), GetR("f")>>]
P_badsame == [s \in {1, 2} |-> IF s = 1 THEN <<BadPut("f", "c1", "c2")>> ELSE <<PutR("f", "c1", "c2"), GetR("f")>>]   \* same path, same DECLARED hash, one liar
P_create  == [s \in {1, 2} |-> IF s = 1 THEN <<PutR("g", "none", "c2")>> ELSE <<PutR("g", "none", "c2"), DelR("g", "c2")>>]
\* a client writes back the very version it last saw (declared hash = expected hash) while the other client replaces /
\* deletes that version: the compare-and-swap must still look at the hub's CURRENT hash
P_writeback == [s \in {1, 2} |-> IF s = 1 THEN <<PutR("f", "c1", "c2")>> ELSE <<PutR("f", "c1", "c1"), GetR("f")>>]
P_delwb   == [s \in {1, 2} |-> IF s = 1 THEN <<DelR("f", "c1")>> ELSE <<PutR("f", "c1", "c1"), GetR("f")>>]
\* three servers: a chain of compare-and-swaps (1: c1->c2, 2: c2->c3) racing a delete that expects c2, then a read
P_casrace3 == [s \in {1, 2, 3} |-> CASE s = 1 -> <<PutR("f", "c1", "c2")>> [] s = 2 -> <<PutR("f", "c2", "c3")>> [] OTHER -> <<DelR("f", "c2"), GetR("f")>>]
c_Init0 == (Live("f") :> "c1")
=============================================================================
