---- MODULE HubSyncTrace_TTrace_1790338050 ----
EXTENDS Sequences, TLCExt, Toolbox, Naturals, TLC, HubSyncTrace

_expression ==
    LET HubSyncTrace_TEExpression == INSTANCE HubSyncTrace_TEExpression
    IN HubSyncTrace_TEExpression!expression
----

_trace ==
    LET HubSyncTrace_TETrace == INSTANCE HubSyncTrace_TETrace
    IN HubSyncTrace_TETrace!trace
----

_inv ==
    ~(
        TLCGet("level") = Len(_TETrace)
        /\
        bad = ({})
        /\
        nonconf = ({})
        /\
        l = (4)
    )
----

_init ==
    /\ bad = _TETrace[1].bad
    /\ nonconf = _TETrace[1].nonconf
    /\ l = _TETrace[1].l
----

_next ==
    /\ \E i,j \in DOMAIN _TETrace:
        /\ \/ /\ j = i + 1
              /\ i = TLCGet("level")
        /\ bad  = _TETrace[i].bad
        /\ bad' = _TETrace[j].bad
        /\ nonconf  = _TETrace[i].nonconf
        /\ nonconf' = _TETrace[j].nonconf
        /\ l  = _TETrace[i].l
        /\ l' = _TETrace[j].l

\* Uncomment the ASSUME below to write the states of the error trace
\* to the given file in Json format. Note that you can pass any tuple
\* to `JsonSerialize`. For example, a sub-sequence of _TETrace.
    \* ASSUME
    \*     LET J == INSTANCE Json
    \*         IN J!JsonSerialize("HubSyncTrace_TTrace_1790338050.json", _TETrace)

=============================================================================

 Note that you can extract this module `HubSyncTrace_TEExpression`
  to a dedicated file to reuse `expression` (the module in the 
  dedicated `HubSyncTrace_TEExpression.tla` file takes precedence 
  over the module `HubSyncTrace_TEExpression` below).

---- MODULE HubSyncTrace_TEExpression ----
EXTENDS Sequences, TLCExt, Toolbox, Naturals, TLC, HubSyncTrace

expression == 
    [
        \* To hide variables of the `HubSyncTrace` spec from the error trace,
        \* remove the variables below.  The trace will be written in the order
        \* of the fields of this record.
        bad |-> bad
        ,nonconf |-> nonconf
        ,l |-> l
        
        \* Put additional constant-, state-, and action-level expressions here:
        \* ,_stateNumber |-> _TEPosition
        \* ,_badUnchanged |-> bad = bad'
        
        \* Format the `bad` variable as Json value.
        \* ,_badJson |->
        \*     LET J == INSTANCE Json
        \*     IN J!ToJson(bad)
        
        \* Lastly, you may build expressions over arbitrary sets of states by
        \* leveraging the _TETrace operator.  For example, this is how to
        \* count the number of times a spec variable changed up to the current
        \* state in the trace.
        \* ,_badModCount |->
        \*     LET F[s \in DOMAIN _TETrace] ==
        \*         IF s = 1 THEN 0
        \*         ELSE IF _TETrace[s].bad # _TETrace[s-1].bad
        \*             THEN 1 + F[s-1] ELSE F[s-1]
        \*     IN F[_TEPosition - 1]
    ]

=============================================================================



Parsing and semantic processing can take forever if the trace below is long.
 In this case, it is advised to uncomment the module below to deserialize the
 trace from a generated binary file.

\*
\*---- MODULE HubSyncTrace_TETrace ----
\*EXTENDS IOUtils, TLC, HubSyncTrace
\*
\*trace == IODeserialize("HubSyncTrace_TTrace_1790338050.bin", TRUE)
\*
\*=============================================================================
\*

---- MODULE HubSyncTrace_TETrace ----
EXTENDS TLC, HubSyncTrace

trace == 
    <<
    ([bad |-> {},nonconf |-> {},l |-> 1]),
    ([bad |-> {},nonconf |-> {},l |-> 2]),
    ([bad |-> {},nonconf |-> {},l |-> 3]),
    ([bad |-> {},nonconf |-> {},l |-> 4])
    >>
----


=============================================================================

---- CONFIG HubSyncTrace_TTrace_1790338050 ----

INVARIANT
    _inv

CHECK_DEADLOCK
    \* CHECK_DEADLOCK off because of PROPERTY or INVARIANT above.
    FALSE

INIT
    _init

NEXT
    _next

CONSTANT
    _TETrace <- _trace

ALIAS
    _expression
=============================================================================
\* Generated on Fri Sep 25 12:07:31 UTC 2026