----------------------------- MODULE OneWayDefs -----------------------------
(* `copia sync -r SRC DST` (incremental.rs, plan.rs, meta.rs, transfer.rs, dir_sync.rs) at   *)
(* the level of whole runs.  A tree maps path index -> None | [c, s, f]:                       *)
(*   c content id (Size(c) gives its length class), s whole-second mtime class, f sub-second    *)
(*   class (the quick check ignores f; delivery stamps whole seconds).                          *)
(* names[p] = components of path p (each a sequence of one-character strings).                  *)
(* Everything is an operator of its arguments so that the TLC search (fixed small universe)      *)
(* and the validation of recorded edges (each record carries its own names) share it.            *)
EXTENDS GlobDefs

Absent == <<>>
Size(c) == IF c \in {1, 2} THEN 1 ELSE IF c = 0 THEN 0 ELSE c       \* contents 1 and 2: same length, different bytes
File(c, s, f) == <<c, s, f>>

NeedsT(sm, dm) == dm = Absent \/ Size(sm[1]) # Size(dm[1]) \/ sm[2] # dm[2]

Dom(names) == 1..Len(names)
Transfer(names, src, dst, pats) == {p \in Dom(names) : src[p] # Absent /\ ~ExcludedDef(names[p], pats) /\ NeedsT(src[p], dst[p])}
Skipped(names, src, dst, pats)  == {p \in Dom(names) : src[p] # Absent /\ ~ExcludedDef(names[p], pats) /\ ~NeedsT(src[p], dst[p])}
Deletes(names, src, dst, pats, del) ==
  IF del THEN {p \in Dom(names) : dst[p] # Absent /\ src[p] = Absent /\ ~ExcludedDef(names[p], pats)} ELSE {}

\* "No files found" short-circuit: an empty source does nothing unless mirroring
ShortCircuit(src, del) == (\A p \in DOMAIN src : src[p] = Absent) /\ ~del

\* the destination after a run (dry runs and the short-circuit change nothing)
RunDst(names, src, dst, pats, del, dry) ==
  IF dry \/ ShortCircuit(src, del) THEN dst
  ELSE [p \in Dom(names) |->
          IF p \in Transfer(names, src, dst, pats) THEN File(src[p][1], src[p][2], 0)
          ELSE IF p \in Deletes(names, src, dst, pats, del) THEN Absent
          ELSE dst[p]]

\* comparison of an observed file with an expected one at the property's precision: bytes + whole-second mtime
SameFile(x, y) == (x = Absent /\ y = Absent) \/ (x # Absent /\ y # Absent /\ x[1] = y[1] /\ x[2] = y[2])
SameExact(x, y) == x = y

(* ---- C04 / C14 / C15 on one observed edge  (src, dst) --run--> (src2, dst2) ---- *)
C04Success(names, src, dst, pats, del, src2, dst2, staging) ==
  /\ \A p \in Transfer(names, src, dst, pats) : SameFile(dst2[p], src[p])                \* delivered: bytes + mtime to the second
  /\ \A p \in Skipped(names, src, dst, pats) : SameExact(dst2[p], dst[p])                \* quick-check matches left exactly as they were
  /\ \A p \in Deletes(names, src, dst, pats, del) : dst2[p] = Absent
  /\ \A p \in Dom(names) : (p \notin Transfer(names, src, dst, pats) /\ p \notin Deletes(names, src, dst, pats, del)) => SameExact(dst2[p], dst[p])
  /\ staging = 0
  /\ src2 = src

C04Failure(names, src, dst, pats, del, src2, dst2, reported) ==      \* non-zero exit: reported, nothing outside the plan touched
  /\ reported
  /\ \A p \in Dom(names) : (p \notin Transfer(names, src, dst, pats) /\ p \notin Deletes(names, src, dst, pats, del)) => SameExact(dst2[p], dst[p])
  /\ src2 = src

C14Second(names, src, dst2, pats, del) ==      \* what an immediate second run must plan: nothing
  Transfer(names, src, dst2, pats) = {} /\ Deletes(names, src, dst2, pats, del) = {}
=============================================================================
