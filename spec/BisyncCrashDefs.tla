-------------------------- MODULE BisyncCrashDefs --------------------------
(* `copia bisync` at the granularity of its file-system-mutating libc calls, with a crash   *)
(* (SIGKILL) possible before any of them, and recovery by running bisync again (C08).         *)
(*                                                                                           *)
(* The run of Bisync!RunResult is compiled into a PROGRAM: the sequence of calls `apply` and   *)
(* `Archive::save` make - per delivery  CreateTmp, CopyData, CopyEof, [FsyncTmp], Rename;       *)
(* per delete Unlink; then ArchCreateTmp, ArchWrite, ArchFsync, [ArchToBak], ArchCommit,        *)
(* DirFsync.  Copies read the LIVE source at the time of the call.  FixFsync = FALSE is the     *)
(* pinned commit (no fsync of delivered files: H7).                                             *)
(*                                                                                           *)
(* File contents: 0 absent, 1..C a complete version, -1 an empty / partial file.               *)
EXTENDS BisyncDefs

CONSTANT FixFsync

Partial == -1
Other(s) == IF s = "A" THEN "B" ELSE "A"

(* ---- the program ---- *)
CopySteps(fs, fp, ts, tp) ==     \* copy_atomic(from side/path, to side/path)
  << [op |-> "CreateTmp", side |-> ts, path |-> tp],
     [op |-> "CopyData", side |-> ts, path |-> tp, fside |-> fs, fpath |-> fp],
     [op |-> "CopyEof", side |-> ts, path |-> tp] >>
  \o (IF FixFsync THEN << [op |-> "FsyncTmp", side |-> ts, path |-> tp] >> ELSE <<>>)
  \o << [op |-> "Rename", side |-> ts, path |-> tp] >>

ActionSteps(p, sa, sb, base, com) ==
  LET act == Act(sa[p], sb[p], base[p]) IN
  CASE act \in {"Noop", "ConvergeIdentical"} -> <<>>
    [] act = "PropagateAtoB" -> CopySteps("A", p, "B", p)
    [] act = "PropagateBtoA" -> CopySteps("B", p, "A", p)
    [] act = "DeleteA" -> << [op |-> "Unlink", side |-> "A", path |-> p] >>
    [] act = "DeleteB" -> << [op |-> "Unlink", side |-> "B", path |-> p] >>
    [] act = "ConflictDeleteVsModify" -> IF sa[p] # 0 THEN CopySteps("A", p, "B", p) ELSE CopySteps("B", p, "A", p)
    [] act = "ConflictBothChanged" ->
         LET awins == sa[p] >= sb[p]
             lose == IF awins THEN "B" ELSE "A"
             win == Other(lose)
             losefp == IF awins THEN sb[p] ELSE sa[p]
             k == ConflictK(sa, sb, p, losefp, com)
             ln == Append(p, <<losefp, IF k = -1 THEN 0 ELSE k>>)
         IN CopySteps(lose, p, lose, ln) \o CopySteps(lose, p, win, ln) \o CopySteps(win, p, lose, p)

RECURSIVE ProgFold(_, _, _, _, _)
ProgFold(todo, sa, sb, base, st) ==     \* st threads `common` exactly as RunResult does (conflict names depend on it)
  IF todo = <<>> THEN <<>>
  ELSE ActionSteps(Head(todo), sa, sb, base, st.common) \o ProgFold(Tail(todo), sa, sb, base, Step(st, Head(todo), sa, sb, base))

ArchSteps(hadArchive) ==
  << [op |-> "ArchCreateTmp"], [op |-> "ArchWrite"], [op |-> "ArchFsync"] >>
  \o (IF hadArchive THEN << [op |-> "ArchToBak"] >> ELSE <<>>)
  \o << [op |-> "ArchCommit"], [op |-> "DirFsync"] >>

Program(a, b, trusted, e, hadArchive) ==
  LET base == IF trusted THEN e ELSE Empty
      present == {p \in AllPaths : a[p] # 0 \/ b[p] # 0}
      c0 == IF FixStale THEN [p \in AllPaths |-> IF p \in present THEN base[p] ELSE 0] ELSE base
  IN ProgFold(SortedPaths(PlanPaths(a, b, base)), a, b, base, [a |-> a, b |-> b, common |-> c0, nconf |-> 0, over |-> FALSE])
     \o ArchSteps(hadArchive)

(* ---- file-system state and the effect of one call ---- *)
\* fs = [A, B : trees; SA, SB : staging files per destination path; synced : set of <<side,path>> staging inodes
\*       flushed since their last write; durable : set of <<side,path>> delivered from a flushed inode;
\*       arch : "old" | "absent" | "new"; atmp : "none" | "empty" | "written" | "synced"]
FS0(a, b, hadArchive) == [A |-> a, B |-> b, SA |-> Empty, SB |-> Empty, synced |-> {}, durable |-> {}, written |-> {},
                          arch |-> IF hadArchive THEN "old" ELSE "absent", atmp |-> "none"]

TreeOf(fs, s) == IF s = "A" THEN fs.A ELSE fs.B
Stg(fs, s) == IF s = "A" THEN fs.SA ELSE fs.SB
SetTree(fs, s, p, v) == IF s = "A" THEN [fs EXCEPT !.A[p] = v] ELSE [fs EXCEPT !.B[p] = v]
SetStg(fs, s, p, v) == IF s = "A" THEN [fs EXCEPT !.SA[p] = v] ELSE [fs EXCEPT !.SB[p] = v]

Exec(fs, st) ==
  CASE st.op = "CreateTmp" -> [SetStg(fs, st.side, st.path, Partial) EXCEPT !.synced = @ \ {<<st.side, st.path>>}]
    [] st.op = "CopyData"  -> [SetStg(fs, st.side, st.path, TreeOf(fs, st.fside)[st.fpath]) EXCEPT !.synced = @ \ {<<st.side, st.path>>}]
    [] st.op = "CopyEof"   -> fs
    [] st.op = "FsyncTmp"  -> [fs EXCEPT !.synced = @ \cup {<<st.side, st.path>>}]
    [] st.op = "Rename"    -> LET v == Stg(fs, st.side)[st.path]
                                  f1 == SetStg(SetTree(fs, st.side, st.path, v), st.side, st.path, 0)
                              IN [f1 EXCEPT !.written = @ \cup {<<st.side, st.path>>},
                                            !.durable = IF <<st.side, st.path>> \in fs.synced THEN @ \cup {<<st.side, st.path>>} ELSE @ \ {<<st.side, st.path>>},
                                            !.synced = @ \ {<<st.side, st.path>>}]
    [] st.op = "Unlink"    -> SetTree(fs, st.side, st.path, 0)
    [] st.op = "ArchCreateTmp" -> [fs EXCEPT !.atmp = "empty"]
    [] st.op = "ArchWrite"  -> [fs EXCEPT !.atmp = "written"]
    [] st.op = "ArchFsync"  -> [fs EXCEPT !.atmp = IF @ = "written" THEN "synced" ELSE @]
    [] st.op = "ArchToBak"  -> [fs EXCEPT !.arch = "absent"]
    [] st.op = "ArchCommit" -> [fs EXCEPT !.arch = "new", !.atmp = "none"]
    [] st.op = "DirFsync"   -> fs
    [] OTHER -> fs

(* ---- C08 at one instant ---- *)
NoPartial(fs) == \A p \in AllPaths : fs.A[p] # Partial /\ fs.B[p] # Partial
ArchNotAhead(fs, fin) ==      \* the new record only after every file it describes is flushed and in place on both sides
  fs.arch = "new" => /\ fs.A = fin.a /\ fs.B = fin.b
                     /\ \A w \in fs.written : w \in fs.durable
CommitSynced(fs) == fs.arch = "new" => TRUE
=============================================================================
