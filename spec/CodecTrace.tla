------------------------------ MODULE CodecTrace ------------------------------
(* Code -> spec for C20.                                                                 *)
(*  "rt"  records: a seeded message written by Codec::write_message and read back (also     *)
(*        several messages on one stream): header bytes as written, payload length,         *)
(*        equality of the decoded value - checked against the header law of Codec.tla.       *)
(*  "file" records: a signature / delta value written by the CLI's serializer and read back.  *)
(*  "cli" records: `copia delta` / `copia patch` on a corrupted signature / delta file under   *)
(*        an address-space limit and a timeout: outcome must be exit 0 or exit 1 with a        *)
(*        reported error - never a signal or a hang; where the corruption class determines      *)
(*        the outcome (invalid block size, counts beyond the data, truncation) it must be 1.    *)
EXTENDS Naturals, Integers, Sequences, TLC, Json, IOUtils

Recs == ndJsonDeserialize(IOEnv.TRACE)
VARIABLES l, bad, nonconf
vars == <<l, bad, nonconf>>

UnLE4(b) == b[1] + 256 * b[2] + 65536 * b[3] + 16777216 * b[4]

RtOK(e) == /\ e.decoded_eq
           /\ SubSeq(e.hdr, 1, 4) = <<67, 79, 80, 65>>
           /\ e.hdr[10] = 1
           /\ e.plen <= 16777216 /\ UnLE4(SubSeq(e.hdr, 5, 8)) = e.plen
           /\ e.hdr[9] = e.type_code
FileOK(e) == e.decoded_eq
CliOK(e) == /\ ~e.signaled /\ ~e.timed_out /\ e.exit \in {0, 1}
            /\ e.exit = 1 => e.reported
            /\ e.strict => e.exit = 1        \* malformed beyond argument: "exit with a reported error"
CliConform(e) == e.must_fail => e.exit = 1

Monitor(e) == CASE e.ev = "rt" -> RtOK(e) [] e.ev = "file" -> FileOK(e) [] e.ev = "cli" -> CliOK(e) [] OTHER -> FALSE
Conform(e) == IF e.ev = "cli" THEN CliConform(e) ELSE TRUE

Init == l = 1 /\ bad = {} /\ nonconf = {}
Next == /\ l <= Len(Recs)
        /\ bad' = IF Monitor(Recs[l]) THEN bad ELSE bad \cup {l}
        /\ nonconf' = IF Conform(Recs[l]) THEN nonconf ELSE nonconf \cup {l}
        /\ l' = l + 1
Spec == Init /\ [][Next]_vars
Report == (l = Len(Recs) + 1) => PrintT(<<"RESULT", ToJson([n |-> Len(Recs), bad |-> bad, nonconf |-> nonconf])>>)
=============================================================================
