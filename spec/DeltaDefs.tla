----------------------------- MODULE DeltaDefs -------------------------------
(* The delta engine of src/{signature,sync,async_sync,delta}.rs on symbol strings.     *)
(* A symbol stands for a fixed chunk of R/B real bytes (R = real block size, B symbols  *)
(* per block); see DESIGN 4.2 for the expansion.  Symbol classes:                        *)
(*   ordinary symbols - unrelated random chunks                                          *)
(*   "H"              - a high-sum chunk (0xFF bytes + marker)                           *)
(*   "K1","K2"        - chunks that differ in content but share the weak checksum        *)
(*                                                                                       *)
(* Scan   : transcription of CopiaSync::delta / AsyncCopiaSync::delta (one definition,    *)
(*          conformance is run against both engines)                                      *)
(* Greedy : the textbook definition of C16                                                *)
(* Patch  : transcription of patch(): validate, apply, verify; with outcome classes        *)
(* Corrupt: single-field corruptions of (basis, delta) for C05                             *)
EXTENDS Naturals, Integers, Sequences, FiniteSets, TLC, Json

CONSTANTS Sym, MaxLen, WeakMode

Strs == UNION {[1..n -> Sym] : n \in 0..MaxLen}
Min(a, b) == IF a < b THEN a ELSE b

(* ---- signature ---- *)
NBlocks(basis, B) == (Len(basis) + B - 1) \div B
Block(basis, B, i) == SubSeq(basis, (i - 1) * B + 1, Min(i * B, Len(basis)))     \* the last block may be short

Canon(s) == IF s = "K2" THEN "K1" ELSE s
WeakScan(w) == [i \in 1..Len(w) |-> Canon(w[i])]
HasH(w) == \E i \in 1..Len(w) : w[i] = "H"
WeakSig(w) == IF WeakMode = "split" /\ HasH(w) THEN <<"wrapped">> ELSE WeakScan(w)   \* "split": signature side computes a different weak hash for high-sum blocks

\* find_match: weak bucket first, then the strong hash; the first candidate in block order wins
FindMatch(basis, B, w) ==
  LET cand == {i \in 1..NBlocks(basis, B) : WeakSig(Block(basis, B, i)) = WeakScan(w) /\ Block(basis, B, i) = w}
  IN IF cand = {} THEN 0 ELSE CHOOSE i \in cand : \A j \in cand : i <= j

(* ---- delta ops ---- *)
Cp(off, len) == [t |-> "C", off |-> off, len |-> len]
Lt(data) == [t |-> "L", data |-> data]

PushCopy(ops, off, len) ==
  IF ops # <<>> /\ ops[Len(ops)].t = "C" /\ ops[Len(ops)].off + ops[Len(ops)].len = off
    THEN [ops EXCEPT ![Len(ops)].len = @ + len]
    ELSE Append(ops, Cp(off, len))
PushLit(ops, data) ==
  IF data = <<>> THEN ops
  ELSE IF ops # <<>> /\ ops[Len(ops)].t = "L" THEN [ops EXCEPT ![Len(ops)].data = @ \o data]
  ELSE Append(ops, Lt(data))

RECURSIVE ScanLoop(_, _, _, _, _)
ScanLoop(basis, source, B, pos, ops) ==
  IF pos + B <= Len(source) THEN
    LET w == SubSeq(source, pos + 1, pos + B)
        m == FindMatch(basis, B, w)
    IN IF m > 0 THEN ScanLoop(basis, source, B, pos + B, PushCopy(ops, (m - 1) * B, B))
       ELSE ScanLoop(basis, source, B, pos + 1, PushLit(ops, <<source[pos + 1]>>))
  ELSE PushLit(ops, SubSeq(source, pos + 1, Len(source)))

Scan(basis, source, B) ==
  IF source = <<>> THEN <<>>
  ELSE IF basis = <<>> THEN <<Lt(source)>>
  ELSE ScanLoop(basis, source, B, 0, <<>>)

LitLen(ops) == LET RECURSIVE f(_) f(s) == IF s = <<>> THEN 0 ELSE (IF Head(s).t = "L" THEN Len(Head(s).data) ELSE 0) + f(Tail(s)) IN f(ops)
CopyLen(ops) == LET RECURSIVE f(_) f(s) == IF s = <<>> THEN 0 ELSE (IF Head(s).t = "C" THEN Head(s).len ELSE 0) + f(Tail(s)) IN f(ops)

(* ---- textbook greedy (C16) ---- *)
RECURSIVE GreedyLit(_, _, _, _)
GreedyLit(basis, source, B, pos) ==
  IF pos + B <= Len(source) THEN
    IF \E i \in 1..NBlocks(basis, B) : Len(Block(basis, B, i)) = B /\ Block(basis, B, i) = SubSeq(source, pos + 1, pos + B)
      THEN GreedyLit(basis, source, B, pos + B)
      ELSE 1 + GreedyLit(basis, source, B, pos + 1)
  ELSE Len(source) - pos

(* ---- patch ---- *)
\* delta record: [ops, ssize, bsize, csum]; csum is the source string the checksum was computed from
RECURSIVE Apply(_, _, _)
Apply(basis, ops, out) ==        \* returns [ok, out]
  IF ops = <<>> THEN [ok |-> TRUE, out |-> out]
  ELSE LET o == Head(ops) IN
    IF o.t = "C" THEN
      IF o.off + o.len > Len(basis) THEN [ok |-> FALSE, out |-> out]          \* short read of the real basis
      ELSE Apply(basis, Tail(ops), out \o SubSeq(basis, o.off + 1, o.off + o.len))
    ELSE Apply(basis, Tail(ops), out \o o.data)

Patch(basis, d) ==
  IF \E i \in 1..Len(d.ops) : d.ops[i].t = "C" /\ d.ops[i].off + d.ops[i].len > d.bsize
    THEN [class |-> "InvalidCopyBounds", out |-> <<>>]
  ELSE LET r == Apply(basis, d.ops, <<>>) IN
    IF ~r.ok THEN [class |-> "Io", out |-> r.out]
    ELSE IF r.out # d.csum THEN [class |-> "ChecksumMismatch", out |-> r.out]
    ELSE [class |-> "Ok", out |-> r.out]

MkDelta(basis, source, B) == [ops |-> Scan(basis, source, B), ssize |-> Len(source), bsize |-> Len(basis), csum |-> source]

(* ---- properties of one (basis, source, B) ---- *)
Merged(ops) == \A i \in 1..(Len(ops) - 1) :
  /\ ~(ops[i].t = "L" /\ ops[i + 1].t = "L")
  /\ ~(ops[i].t = "C" /\ ops[i + 1].t = "C" /\ ops[i].off + ops[i].len = ops[i + 1].off)

CaseOK(basis, source, B) ==
  LET d == MkDelta(basis, source, B)  p == Patch(basis, d) IN
  /\ p.class = "Ok" /\ p.out = source                                      \* C01 round trip
  /\ LitLen(d.ops) + CopyLen(d.ops) = Len(source)                          \* lengths sum to the source size
  /\ \A i \in 1..Len(d.ops) : d.ops[i].t = "C" => d.ops[i].off + d.ops[i].len <= Len(basis) /\ d.ops[i].len > 0
  /\ \A i \in 1..Len(d.ops) : d.ops[i].t = "L" => d.ops[i].data # <<>>
  /\ Merged(d.ops)
  /\ (WeakMode = "same") => LitLen(d.ops) = GreedyLit(basis, source, B, 0)   \* C16: exactly greedy
  /\ LitLen(d.ops) <= Len(source)
  /\ (WeakMode = "same" /\ basis = source) => LitLen(d.ops) < B             \* identical files: less than one block literal
=============================================================================
