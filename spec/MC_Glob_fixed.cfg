SPECIFICATION Spec
CONSTANTS
  Sigma = {"a", "b", "*", "?", ".", "/"}
  L = 3
  Variant = "fixed"
INVARIANTS GlobOK ExcludeOK Emit
CHECK_DEADLOCK FALSE
