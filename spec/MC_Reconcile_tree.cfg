SPECIFICATION Spec
CONSTANTS
  Digests = {1, 2}
  Types = {"File", "Symlink"}
  Paths = {1, 2}
INVARIANTS TriplesOK PlanOK Emit
CHECK_DEADLOCK FALSE
