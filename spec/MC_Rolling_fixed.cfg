SPECIFICATION Spec
CONSTANTS
  M = 7
  W = 16
  K = 2
  Bytes = {0, 3, 6}
  MaxWin = 3
  MaxOps = 4
  Variant = "fixed"
INVARIANTS PlainOK FastOK SameAsNew Agree Bounded Emit
CHECK_DEADLOCK FALSE
