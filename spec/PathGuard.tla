------------------------------ MODULE PathGuard ------------------------------
(* The hub's path-traversal guard (serve.rs safe_join) and what the operating system does     *)
(* with the joined path.  A client path is a leading-slash flag plus a sequence of components   *)
(* (the pieces between '/'); a component is ParentDir iff it is EXACTLY "..".                    *)
(*   Refused : what safe_join rejects (absolute, or any ".." component)                          *)
(*   Walk    : kernel resolution of ROOT/<path>: "" and "." stay, a name descends, ".." ascends   *)
(*   Escapes : the walk leaves ROOT at some point (depth below 0), or the path is absolute         *)
(* C11: not Refused => the walk - also of the staging and conflict-copy siblings, which append     *)
(* a suffix to the last component - never leaves ROOT.                                              *)
EXTENDS Naturals, Integers, Sequences, FiniteSets, TLC, Json

CONSTANTS Comps, MaxLen        \* component alphabet, e.g. {"", ".", "..", "n", "..n", "n..", "...", "L"}

Paths == [abs : BOOLEAN, comps : UNION {[1..k -> Comps] : k \in 0..MaxLen}]

\* the rendered string is  ["/"] c1 "/" c2 "/" ...  : it starts with a slash also when the first of several components is empty
IsAbs(p) == p.abs \/ (Len(p.comps) >= 2 /\ p.comps[1] = "")
Refused(p) == IsAbs(p) \/ \E i \in 1..Len(p.comps) : p.comps[i] = ".."

RECURSIVE MinDepth(_, _, _)
MinDepth(cs, d, lo) ==          \* lowest depth reached while walking cs from depth d
  IF cs = <<>> THEN lo
  ELSE LET c == Head(cs)
           d2 == IF c \in {"", "."} THEN d ELSE IF c = ".." THEN d - 1 ELSE d + 1
       IN MinDepth(Tail(cs), d2, IF d2 < lo THEN d2 ELSE lo)
Escapes(p) == IsAbs(p) \/ MinDepth(p.comps, 0, 0) < 0

\* a sibling appends a non-empty suffix to the last component: "x" -> "x.pid.copia-tmp"; ".." -> "...pid.copia-tmp" (a name)
Sibling(p) == IF p.comps = <<>> THEN [p EXCEPT !.comps = <<"n">>]
              ELSE [p EXCEPT !.comps[Len(p.comps)] = "n"]

VARIABLES p, phase
vars == <<p, phase>>
Init == p \in Paths /\ phase = "new"
Next == phase = "new" /\ phase' = "checked" /\ UNCHANGED p
Spec == Init /\ [][Next]_vars

Guard == ~Refused(p) => (~Escapes(p) /\ ~Escapes(Sibling(p)))
\* the guard is not needlessly strict either: anything it refuses would indeed escape, or is absolute, or climbs at some point
RefusedOnlyIfClimbs == Refused(p) => (IsAbs(p) \/ \E i \in 1..Len(p.comps) : p.comps[i] = "..")

Emit == phase = "checked" => PrintT(<<"CASE", ToJson([abs |-> p.abs, comps |-> p.comps, refused |-> Refused(p), escapes |-> Escapes(p)])>>)
=============================================================================
