SPECIFICATION Spec
CONSTANTS
  Sym = {"R1", "R2"}
  MaxLen = 3
  Bs = {1, 2}
  WeakMode = "same"
INVARIANTS Safe Emit
CHECK_DEADLOCK FALSE
