----------------------------- MODULE DeltaEngine -----------------------------
(* TLC search over DeltaDefs: one state per (basis, source, B); checks every clause of  *)
(* C01 / C16 on the scan + patch machines and emits the expected delta per case.         *)
EXTENDS DeltaDefs
CONSTANT Bs

(* ---- machine: one state per case ---- *)
VARIABLES basis, source, B, phase
vars == <<basis, source, B, phase>>
Init == basis \in Strs /\ source \in Strs /\ B \in Bs /\ phase = "new"
Next == phase = "new" /\ phase' = "checked" /\ UNCHANGED <<basis, source, B>>
Spec == Init /\ [][Next]_vars

AllOK == CaseOK(basis, source, B)
\* C16 alone (refuted under WeakMode = "split", the defect class of the pinned commit's RollingChecksum::new)
C16Holds == LitLen(Scan(basis, source, B)) <= GreedyLit(basis, source, B, 0)

OpJ(o) == IF o.t = "C" THEN [t |-> "C", off |-> o.off, len |-> o.len] ELSE [t |-> "L", data |-> o.data]
Emit == phase = "checked" =>
  PrintT(<<"CASE", ToJson([basis |-> basis, source |-> source, B |-> B,
                           ops |-> [i \in 1..Len(Scan(basis, source, B)) |-> OpJ(Scan(basis, source, B)[i])],
                           lit |-> LitLen(Scan(basis, source, B)),
                           greedy |-> GreedyLit(basis, source, B, 0)])>>)
=============================================================================
