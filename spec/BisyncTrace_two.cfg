SPECIFICATION Spec
CONSTANTS
  NB = 2
  C = 2
  MaxDepth = 1
  MaxK = 1
  FixStale = TRUE
  FixCollide = TRUE
INVARIANT Report
CHECK_DEADLOCK FALSE
