SPECIFICATION Spec
CONSTANTS
  Sigma = {"a", "b", "d", "*", "?", ".", "/"}
  Variant = "fixed"
  Names <- c_Names
  Metas <- c_Metas
  PatLists <- c_PatLists
INVARIANTS ExactlyThePlan SecondRunEmpty ExcludesProtect DeleteOptIn DryTouchesNothing Emit
CHECK_DEADLOCK FALSE
