SPECIFICATION Spec
CONSTANTS
  Clients = {1, 2}
  NP = 2
  C = 2
  Locals <- c_Locals
  HubInit <- c_HubInit
INVARIANTS Lands NothingLost SecondRunIdle
CHECK_DEADLOCK FALSE
