-------------------------------- MODULE Codec --------------------------------
(* The framed codec of src/protocol.rs.                                               *)
(*  - header law: Decode(Encode(h)) = h; an encoded header begins "COPA", carries      *)
(*    version 1 and the little-endian payload length                                   *)
(*  - reader machine  ReadHeader -> Validate -> ReadPayload(len) -> DecodeBody  with    *)
(*    the validation order of the code (type, magic, version, length <= 16 MiB) and     *)
(*    outcome classes Ok / Protocol (reported protocol error) / Io (short read)         *)
(* Payload bodies are opaque: the single law DecodeBody(EncodeBody(m)) = m, a strict     *)
(* prefix of an encoding never decodes, trailing bytes inside the frame are ignored      *)
(* (bincode's default `deserialize`).                                                    *)
(* The machine reads a byte STREAM: how many bytes one `read` call hands over is not part  *)
(* of the state, so the outcome may not depend on it - the harness decodes every case       *)
(* once from a whole buffer and again through readers that hand over 1, 5 and 11-13 bytes   *)
(* per call and requires the same Ok / error split and the same value.                      *)
EXTENDS Naturals, Sequences, FiniteSets, TLC, Json

MaxPayload == 16777216

(* ---- header law on concrete numbers ---- *)
Lens  == {0, 1, 255, 256, 65535, 65536, 16777215, 16777216}
Types == 1..7
Flags == {0, 1, 256, 65535}
LE4(n) == <<n % 256, (n \div 256) % 256, (n \div 65536) % 256, (n \div 16777216) % 256>>
LE2(n) == <<n % 256, (n \div 256) % 256>>
UnLE4(b) == b[1] + 256 * b[2] + 65536 * b[3] + 16777216 * b[4]
UnLE2(b) == b[1] + 256 * b[2]
Magic == <<67, 79, 80, 65>>                       \* "COPA"
EncodeHdr(h) == Magic \o LE4(h.len) \o <<h.type, 1>> \o LE2(h.flags)
DecodeHdr(b) ==      \* returns a header record or "error"; order: type, magic, version, length
  IF b[9] \notin Types THEN "error"
  ELSE IF SubSeq(b, 1, 4) # Magic THEN "error"
  ELSE IF b[10] # 1 THEN "error"
  ELSE IF UnLE4(SubSeq(b, 5, 8)) > MaxPayload THEN "error"
  ELSE [len |-> UnLE4(SubSeq(b, 5, 8)), type |-> b[9], flags |-> UnLE2(SubSeq(b, 11, 12))]
HdrLaw == \A l \in Lens, t \in Types, f \in Flags :
  LET h == [len |-> l, type |-> t, flags |-> f]  e == EncodeHdr(h) IN
  /\ DecodeHdr(e) = h /\ Len(e) = 12 /\ SubSeq(e, 1, 4) = Magic /\ e[10] = 1 /\ UnLE4(SubSeq(e, 5, 8)) = l
ASSUME HdrLaw

(* ---- reader machine on field classes ---- *)
MagicC == {"ok", "bad1", "bad2", "bad3", "bad4"}
VersC  == {0, 1, 2}
TypeC  == {0, 1, 2, 3, 4, 5, 6, 7, 8, 255}
LenC   == {"zero", "trunc", "exact", "pad", "eof", "max0", "max1", "u32max", "innerhuge"}   \* innerhuge: well-framed, but a length prefix INSIDE the payload is absurd (2^26, 2^47, 2^64-1); max0: declared length EXACTLY MaxPayload (the bound is inclusive, as in HdrLaw), payload padded up to it
KindsWithLen == {"SignatureResponse", "DeltaData", "Ack", "Error"}                  \* kinds whose encoding carries an inner length
CutC   == {"full", "cut0", "cut5", "cut11"}            \* stream closed inside the 12 header bytes
Kinds  == {"SignatureRequest", "SignatureResponse", "DeltaData", "Ack", "Error", "Ping", "Pong"}

VARIABLES c, pc, outcome
vars == <<c, pc, outcome>>

Init == /\ c \in [magic : MagicC, ver : VersC, type : TypeC, len : LenC, cut : CutC, kind : Kinds]
        /\ pc = "ReadHeader" /\ outcome = "none"

Done(o) == pc' = "Done" /\ outcome' = o /\ UNCHANGED c

ReadHeader == /\ pc = "ReadHeader"
              /\ IF c.cut # "full" THEN Done("Io")
                 ELSE pc' = "Validate" /\ UNCHANGED <<c, outcome>>
Validate == /\ pc = "Validate"
            /\ IF c.magic # "ok" THEN Done("Protocol")            \* read_from checks the magic first
               ELSE IF c.type \notin 1..7 THEN Done("Protocol")
               ELSE IF c.ver # 1 THEN Done("Protocol")
               ELSE IF c.len \in {"max1", "u32max"} THEN Done("Protocol")   \* rejected before any reservation
               ELSE pc' = "ReadPayload" /\ UNCHANGED <<c, outcome>>
ReadPayload == /\ pc = "ReadPayload"
               /\ IF c.len = "eof" THEN Done("Io")
                  ELSE pc' = "DecodeBody" /\ UNCHANGED <<c, outcome>>
DecodeBody == /\ pc = "DecodeBody"
              /\ IF c.len \in {"zero", "trunc"} \/ (c.len = "innerhuge" /\ c.kind \in KindsWithLen) THEN Done("Protocol") ELSE Done("Ok")
Next == ReadHeader \/ Validate \/ ReadPayload \/ DecodeBody
Spec == Init /\ [][Next]_vars

\* what FrameHeader::decode says about the same 12 bytes (no stream, so no Io class)
HdrOnly(x) == IF x.type \notin 1..7 \/ x.magic # "ok" \/ x.ver # 1 \/ x.len \in {"max1", "u32max"} THEN "Protocol" ELSE "Ok"

\* C20: wrong magic / version / unknown type / oversize length is always an error; never "none" at the end
Rejects == pc = "Done" =>
  /\ outcome \in {"Ok", "Protocol", "Io"}
  /\ (c.magic # "ok" \/ c.ver # 1 \/ c.type \notin 1..7 \/ c.len \in {"max1", "u32max"}) => outcome # "Ok"
  /\ outcome = "Ok" => (c.cut = "full" /\ c.len \in {"exact", "pad", "max0", "innerhuge"})

Emit == pc = "Done" => PrintT(<<"CASE", ToJson([c |-> c, want |-> outcome, hdr |-> HdrOnly(c)])>>)
=============================================================================
