SPECIFICATION Spec
CONSTANTS
  NB = 1
  C = 2
  MaxDepth = 2
  MaxK = 1
  FixStale = TRUE
  FixCollide = TRUE
INVARIANT Report
CHECK_DEADLOCK FALSE
