SPECIFICATION Spec
CONSTANTS
  M = 7
  W = 0
  K = 5
  Bytes = {0, 2, 6}
  MaxWin = 4
  MaxOps = 7
  Variant = "fixed"
INVARIANTS PlainOK FastOK SameAsNew Agree Bounded
CHECK_DEADLOCK FALSE
