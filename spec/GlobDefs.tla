-------------------------------- MODULE GlobDefs --------------------------------
(* Wildcard matching of `--exclude` patterns (src/bin/copia/plan.rs).                 *)
(*   Match    : the semantics stated in C15/C19 - `*` any run of characters, `?`       *)
(*              exactly one, every other character literal (also when the TEXT holds   *)
(*              `*` or `?`)                                                            *)
(*   GlobAlg  : the backtracking loop of glob_match as a function of its loop state    *)
(*              (pi, ti, star, mark), same branch order as the code.                   *)
(*              Variant "orig"  = pinned commit: literal/`?` branch tested before `*`   *)
(*              Variant "fixed" = `*` branch first (fix: commit)                        *)
(*   Excluded : per-component vs whole-path rule of is_excluded                        *)
(* Strings are sequences of one-character strings.                                     *)
EXTENDS Naturals, Integers, Sequences, FiniteSets, TLC, Json

CONSTANTS Sigma, Variant

Strs(n) == UNION {[1..k -> Sigma] : k \in 0..n}

RECURSIVE Match(_, _)
Match(p, t) ==
  IF p = <<>> THEN t = <<>>
  ELSE IF Head(p) = "*" THEN Match(Tail(p), t) \/ (t # <<>> /\ Match(p, Tail(t)))
  ELSE IF Head(p) = "?" THEN t # <<>> /\ Match(Tail(p), Tail(t))
  ELSE t # <<>> /\ Head(t) = Head(p) /\ Match(Tail(p), Tail(t))

RECURSIVE SkipStars(_, _)
SkipStars(p, pi) == IF pi < Len(p) /\ p[pi + 1] = "*" THEN SkipStars(p, pi + 1) ELSE pi

\* indices are 0-based as in the code; star = -1 stands for None
RECURSIVE Loop(_, _, _, _, _, _)
Loop(p, t, pi, ti, star, mark) ==
  IF ti < Len(t) THEN
    LET lit  == pi < Len(p) /\ (p[pi + 1] = "?" \/ p[pi + 1] = t[ti + 1])
        st   == pi < Len(p) /\ p[pi + 1] = "*"
        adv  == Loop(p, t, pi + 1, ti + 1, star, mark)
        open == Loop(p, t, pi + 1, ti, pi, ti)
        back == Loop(p, t, star + 1, mark + 1, star, mark + 1)
    IN IF Variant = "orig"
         THEN IF lit THEN adv ELSE IF st THEN open ELSE IF star # -1 THEN back ELSE FALSE
         ELSE IF st THEN open ELSE IF lit THEN adv ELSE IF star # -1 THEN back ELSE FALSE
  ELSE SkipStars(p, pi) = Len(p)

GlobAlg(p, t) == Loop(p, t, 0, 0, -1, 0)

(* ---- is_excluded ---- *)
RECURSIVE TrimSlash(_)
TrimSlash(p) == IF p # <<>> /\ p[Len(p)] = "/" THEN TrimSlash(SubSeq(p, 1, Len(p) - 1)) ELSE p

HasSlash(p) == \E i \in 1..Len(p) : p[i] = "/"

RECURSIVE Join(_)
Join(comps) == IF Len(comps) = 1 THEN comps[1] ELSE comps[1] \o <<"/">> \o Join(Tail(comps))

\* rel = non-empty sequence of components (each a non-empty slash-free string)
ExcludedBy(M(_, _), rel, pat) ==
  LET q == TrimSlash(pat) IN
  IF q = <<>> THEN FALSE
  ELSE IF HasSlash(q) THEN M(q, Join(rel))
  ELSE \E i \in 1..Len(rel) : M(q, rel[i])

ExcludedDef(rel, pats) == \E i \in 1..Len(pats) : ExcludedBy(Match, rel, pats[i])
ExcludedAlg(rel, pats) == \E i \in 1..Len(pats) : ExcludedBy(GlobAlg, rel, pats[i])
=============================================================================
