----------------------------- MODULE HubSyncTrace -----------------------------
(* Code -> spec for C13.  "seq" records: one real `copia hub-sync LOCAL TARGET` run by one      *)
(* client with nobody else active (local-path target, or host:root through the ssh stand-in),     *)
(* followed by an immediate second run.  "race" records: client A's server held at its first       *)
(* staging open while client B's hub-sync runs to completion (stale listing), then released.       *)
(* Trees are arrays over the record's path list; 0 = absent; conflict-copies are listed as          *)
(* <<path index, content>> pairs.                                                                    *)
(*   Conform : the hub after a sequential run is what HubSync's run semantics gives                  *)
(*   Monitor : exit 0 => every local file is on the hub with identical bytes, other hub paths         *)
(*             untouched, the second run sends nothing; a CAS loss => exit non-zero, every local       *)
(*             file retrievable at its path or as a conflict-copy, the other client's bytes still live  *)
EXTENDS Integers, Naturals, Sequences, FiniteSets, TLC, Json, IOUtils

Recs == ndJsonDeserialize(IOEnv.TRACE)
VARIABLES l, bad, nonconf
vars == <<l, bad, nonconf>>

N(e) == Len(e.hub)
SeqResult(e) == [p \in 1..N(e) |-> IF e.local[p] # 0 THEN e.local[p] ELSE e.hub[p]]
Confs(e) == {<<e.conf2[i][1], e.conf2[i][2]>> : i \in 1..Len(e.conf2)}

\* e.unsendable: the local tree holds a file whose name is not UTF-8; wire paths are text, so the client must refuse
\* (non-zero exit, hub untouched) rather than land the file under some other name
\* e.blocked: the local tree holds a file where the hub has a directory (or the reverse); that Put is answered with an error, so
\* the run cannot land the tree and must not exit 0
FailedSeq(e) ==
     (IF e.exit = 0 \/ e.unsendable \/ e.blocked THEN {} ELSE {"sequential-run-failed"})
  \cup (IF e.exit = 0 /\ ~(\A p \in 1..N(e) : e.local[p] # 0 => e.hub2[p] = e.local[p]) THEN {"local-file-not-on-hub"} ELSE {})
  \cup (IF ~(\A p \in 1..N(e) : e.local[p] = 0 => e.hub2[p] = e.hub[p]) \/ e.alien # <<>> \/ Len(e.conf2) # Len(e.conf) THEN {"other-hub-path-touched"} ELSE {})
  \cup (IF e.exit = 0 /\ ~(e.second.exit = 0 /\ e.second.sent \in {0, -1} /\ e.second.conflicts \in {0, -1} /\ e.second.unchanged) THEN {"second-run-sends"} ELSE {})

\* e.clash[p]: A's file p is a file where B committed a directory during the window, or lies under a path where B committed a file
Retrievable(e, p) == e.hub2[p] = e.localA[p] \/ <<p, e.localA[p]>> \in Confs(e)
FailedRace(e) ==
     (IF e.exitA # 0 THEN {} ELSE {"cas-loss-not-reported"})
  \cup (IF \A p \in 1..N(e) : (e.localA[p] # 0 /\ ~e.clash[p]) => Retrievable(e, p) THEN {} ELSE {"local-file-not-retrievable"})
  \cup (IF \A p \in 1..N(e) : (e.localA[p] # 0 /\ e.clash[p]) => Retrievable(e, p) THEN {} ELSE {"clashing-file-not-retrievable"})
  \cup (IF \A p \in 1..N(e) : (e.localB[p] # 0 /\ e.localB[p] # e.hub[p]) => e.hub2[p] = e.localB[p] THEN {} ELSE {"other-clients-commit-overwritten"})
  \cup (IF e.exitB = 0 THEN {} ELSE {"undisturbed-client-failed"})

\* a large local tree (thousands of files): summarised by the harness (file count on the hub, byte-identical or not)
FailedLarge(e) ==
     (IF e.exit = 0 /\ e.landed THEN {} ELSE {"large-tree-not-landed"})
  \cup (IF e.second.exit = 0 /\ e.second.sent \in {0, -1} /\ e.second.conflicts \in {0, -1} /\ e.second.unchanged THEN {} ELSE {"large-tree-second-run-fails"})

Failed(e) == IF e.kind = "seq" THEN FailedSeq(e) ELSE IF e.kind = "large" THEN FailedLarge(e) ELSE FailedRace(e)
Conform(e) == e.kind # "seq" \/ (e.unsendable /\ e.exit # 0 /\ e.hub2 = e.hub /\ e.alien = <<>>)
                               \/ (~e.unsendable /\ e.blocked /\ e.exit # 0 /\ \A p \in 1..N(e) : e.hub2[p] \in {e.hub[p], e.local[p]})
                               \/ (~e.unsendable /\ ~e.blocked /\ e.hub2 = SeqResult(e) /\ e.sent = Cardinality({p \in 1..N(e) : e.local[p] # 0 /\ e.local[p] # e.hub[p]})
                                                  /\ e.skipped = Cardinality({p \in 1..N(e) : e.local[p] # 0 /\ e.local[p] = e.hub[p]}))

Init == l = 1 /\ bad = {} /\ nonconf = {}
Next == /\ l <= Len(Recs)
        /\ bad' = bad \cup {<<l, q>> : q \in Failed(Recs[l])}
        /\ nonconf' = IF Conform(Recs[l]) THEN nonconf ELSE nonconf \cup {l}
        /\ l' = l + 1
Spec == Init /\ [][Next]_vars
Report == (l = Len(Recs) + 1) => PrintT(<<"RESULT", ToJson([n |-> Len(Recs), bad |-> bad, nonconf |-> nonconf])>>)
=============================================================================
