SPECIFICATION Spec
CONSTANTS
  NB = 1
  C = 3
  MaxDepth = 2
  MaxK = 1
  FixStale = TRUE
  FixCollide = TRUE
INVARIANT Report
CHECK_DEADLOCK FALSE
