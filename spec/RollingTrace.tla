---------------------------- MODULE RollingTrace ----------------------------
(* Code -> spec for C17: recorded executions of both real rolling-checksum types at    *)
(* the real constants (M = 65521).  A trace file is a sequence of runs; each run       *)
(* starts with a "data" line carrying a byte array, and every later event moves a      *)
(* window [s+1 .. s+n] over that array:                                                *)
(*     new(s,n)   push (n+1)   roll (s+1; old byte = D[s+1], new byte = D[s+n+1])        *)
(* The spec keeps only the modular pair (a,b), updated by exact modular algebra, audits *)
(* it against the definitional fold at every `new`, every 997th event and the end of   *)
(* each run, and compares it with what both real types reported after the operation.   *)
(* Marathon runs (tens of millions of slides) are not recorded slide by slide: at each  *)
(* checkpoint the harness writes the bytes currently in the window as a fresh "data"    *)
(* line followed by a "new" event that carries what the ROLLED checksums report; New    *)
(* then compares those with the definition over that window.                            *)
EXTENDS Naturals, Sequences, TLC, Json, IOUtils, SequencesExt

M == 65521
Recs == ndJsonDeserialize(IOEnv.TRACE)

VARIABLES l, d, s, n, a, b, bad
vars == <<l, d, s, n, a, b, bad>>

D(i) == Recs[d].bytes[i]

\* definition: a = sum x_i, b = sum (n-i) x_i (i from 0), every partial result < 2^31
Step1(acc, x, w) ==
  LET a2 == (acc[1] + x) % M
      b2 == (acc[2] + ((w * x) % M)) % M
  IN <<a2, b2>>
DefPair(dd, ss, nn) ==
  FoldLeft(LAMBDA acc, i : Step1(acc, Recs[dd].bytes[ss + i], nn - i + 1), <<0, 0>>, [i \in 1..nn |-> i])

Obs(e) ==   \* what the code reported: plain and fast digests split in 16-bit halves, lengths, plain components
  /\ e.p[1] = b /\ e.p[2] = a /\ e.p[3] = n
  /\ e.f[1] = b /\ e.f[2] = a /\ e.f[3] = n
  /\ e.pa = a /\ e.pb = b

Init == l = 1 /\ d = 0 /\ s = 0 /\ n = 0 /\ a = 0 /\ b = 0 /\ bad = {}

Data == /\ Recs[l].ev = "data"
        /\ d' = l /\ s' = 0 /\ n' = 0 /\ a' = 0 /\ b' = 0 /\ UNCHANGED bad

New == /\ Recs[l].ev = "new"
       /\ LET e == Recs[l]  pr == DefPair(d, e.s, e.n) IN
            /\ s' = e.s /\ n' = e.n /\ a' = pr[1] /\ b' = pr[2]
            /\ bad' = IF e.p = <<pr[2], pr[1], e.n>> /\ e.f = <<pr[2], pr[1], e.n>> /\ e.pa = pr[1] /\ e.pb = pr[2]
                      THEN bad ELSE bad \cup {l}
       /\ UNCHANGED d

Push == /\ Recs[l].ev = "push"
        /\ LET x == D(s + n + 1)
               a2 == (a + x) % M
               b2 == (b + a2) % M
           IN /\ a' = a2 /\ b' = b2 /\ n' = n + 1
              /\ bad' = IF Recs[l].p = <<b2, a2, n + 1>> /\ Recs[l].f = <<b2, a2, n + 1>>
                           /\ Recs[l].pa = a2 /\ Recs[l].pb = b2 THEN bad ELSE bad \cup {l}
        /\ UNCHANGED <<d, s>>

Roll == /\ Recs[l].ev = "roll"
        /\ LET old == D(s + 1)  new == D(s + n + 1)
               a2 == (a + M - old + new) % M
               b2 == (b + M - ((n * old) % M) + a2) % M
           IN /\ a' = a2 /\ b' = b2 /\ s' = s + 1
              /\ bad' = IF Recs[l].p = <<b2, a2, n>> /\ Recs[l].f = <<b2, a2, n>>
                           /\ Recs[l].pa = a2 /\ Recs[l].pb = b2 THEN bad ELSE bad \cup {l}
        /\ UNCHANGED <<d, n>>

Panic == /\ Recs[l].ev = "panic"
         /\ bad' = bad \cup {l} /\ UNCHANGED <<d, s, n, a, b>>

Next == /\ l <= Len(Recs)
        /\ (Data \/ New \/ Push \/ Roll \/ Panic)
        /\ l' = l + 1
Spec == Init /\ [][Next]_vars

\* the incremental pair the spec carries is itself audited against the definition
Audit == ((l % 997 = 0 \/ l = Len(Recs) + 1 \/ (l <= Len(Recs) /\ Recs[l].ev = "data")) /\ d > 0 /\ n > 0)
            => <<a, b>> = DefPair(d, s, n)

Report == (l = Len(Recs) + 1) => PrintT(<<"RESULT", ToJson([n |-> Len(Recs), bad |-> bad])>>)
=============================================================================
