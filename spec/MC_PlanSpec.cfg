SPECIFICATION PSpec
CONSTANTS
  Sigma = {"a", "b", "*", "?", ".", "/"}
  Variant = "fixed"
  N = 3
  Names <- c_Names
  Metas <- c_Metas
  PatLists <- c_PatLists
INVARIANTS PlanOK PEmit
CHECK_DEADLOCK FALSE
