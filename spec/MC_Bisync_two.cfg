SPECIFICATION Spec
CONSTANTS
  NB = 2
  C = 2
  MaxDepth = 1
  MaxK = 1
  FixStale = TRUE
  FixCollide = TRUE
  Editable <- c_EditableBase
  InitContents = 0
INVARIANTS NoLoss Converged ConflictShape NoBaseNoDelete MirrorSym
CHECK_DEADLOCK FALSE
