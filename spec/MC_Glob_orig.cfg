SPECIFICATION Spec
CONSTANTS
  Sigma = {"a", "b", "*", "?", ".", "/"}
  L = 3
  Variant = "orig"
INVARIANTS GlobOK ExcludeOK
CHECK_DEADLOCK FALSE
