------------------------------ MODULE MC_Bisync ------------------------------
EXTENDS Bisync, Json, IOUtils
\* users edit the base path and the plain conflict-copy names of depth 1
c_Editable == {p \in AllPaths : Depth(p) = 0 \/ (Depth(p) = 1 /\ p[2][2] = 0)}
c_EditableBase == {p \in AllPaths : Depth(p) = 0}
c_EditableLow == {p \in AllPaths : Depth(p) = 0 \/ (Depth(p) = 1 /\ p[2] = <<1, 0>>)}
PathList == SortedPaths(AllPaths)
ASSUME "PATHS_OUT" \in DOMAIN IOEnv => JsonSerialize(IOEnv.PATHS_OUT, PathList)
=============================================================================
