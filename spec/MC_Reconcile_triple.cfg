SPECIFICATION Spec
CONSTANTS
  Digests = {1, 2, 3}
  Types = {"File", "Symlink"}
  Paths = {1}
INVARIANTS TriplesOK PlanOK Emit
CHECK_DEADLOCK FALSE
