SPECIFICATION Spec
CONSTANTS
  MaxFrames = 3
  InitF = "c1"
INVARIANTS Total NoEffectBeforeRequest Emit
CHECK_DEADLOCK FALSE
