--------------------------------- MODULE Hub ---------------------------------
(* `copia serve ROOT` (src/bin/copia/serve.rs): N server processes on one root, each a          *)
(* sequential program of requests, at the granularity of the libc calls that touch shared       *)
(* objects (file names, inodes, the commit lock).  HubAtomic - a map path -> content with        *)
(* atomic CAS put / CAS delete / get / list - is carried as ghost state `abs` and updated at     *)
(* the linearization points (the rename / unlink / single open under the lock); every step        *)
(* checks that the projected file system equals `abs` (refinement, hence linearizability).        *)
(*                                                                                              *)
(* File system: names -> inode ids -> data (sequence of chunk tags <<c,i>>); rename moves          *)
(* whatever inode the source name has NOW; O_TRUNC empties the inode the name has NOW; writes      *)
(* go to the descriptor's inode wherever its names went.                                           *)
(* Parameters reproduce the pinned commit:  TmpShared (staging name is a pure function of the      *)
(* destination: H8),  GetThreeLooks (length, hash and body from three separate looks: H9).         *)
(* List hashes file by file without the lock in both (H12, a known finding).                        *)
EXTENDS Naturals, Integers, Sequences, FiniteSets, TLC

CONSTANTS Servers, Paths, Contents, Ch, Programs, Init0, TmpShared, GetThreeLooks, AllowKill

None == "none"
Full(c) == [i \in 1..Ch |-> <<c, i>>]
Class(data) == IF data = <<>> THEN "empty"
               ELSE IF \E c \in Contents : data = Full(c) THEN (CHOOSE c \in Contents : data = Full(c)) ELSE "torn"

Live(p) == <<"live", p>>
Conf(p, c) == <<"conf", p, c>>
Tmp(s, p) == IF TmpShared THEN <<"tmp", p, 0>> ELSE <<"tmp", p, s>>
PubNames == {Live(p) : p \in Paths} \cup {Conf(p, c) : p \in Paths, c \in Contents}
TmpNames == {<<"tmp", p, s>> : p \in Paths, s \in Servers \cup {0}}
Names == PubNames \cup TmpNames
MaxInode == 8

VARIABLES names, inodes, nexti, lock, pc, ri, loc, replies, abs, bad
vars == <<names, inodes, nexti, lock, pc, ri, loc, replies, abs, bad>>
\* pc[s]: step within the current request; ri[s]: index of the current request; loc[s]: process-local data

Req(s) == Programs[s][ri[s]]
Data(n) == IF names[n] = 0 THEN <<>> ELSE inodes[names[n]]
ClassOf(n) == IF names[n] = 0 THEN None ELSE Class(inodes[names[n]])
Proj(nm, ino) == [n \in PubNames |-> IF nm[n] = 0 THEN None ELSE Class(ino[nm[n]])]

Loc0 == [fd |-> 0, cur |-> None, w |-> 0, len |-> -1, hash |-> <<>>, res |-> None, seen |-> <<>>, todo |-> <<>>]

Init == /\ names = [n \in Names |-> IF n \in DOMAIN Init0 THEN 1 ELSE 0]     \* at most one initial file (inode 1)
        /\ inodes = [i \in 1..MaxInode |-> IF i = 1 /\ DOMAIN Init0 # {} THEN Full(Init0[CHOOSE n \in DOMAIN Init0 : TRUE]) ELSE <<>>]
        /\ nexti = 2 /\ lock = 0
        /\ pc = [s \in Servers |-> "idle"] /\ ri = [s \in Servers |-> 1]
        /\ loc = [s \in Servers |-> Loc0]
        /\ replies = [s \in Servers |-> <<>>]
        /\ abs = [n \in PubNames |-> IF n \in DOMAIN Init0 THEN Init0[n] ELSE None]
        /\ bad = {}

\* every step is checked against the ghost: the projection may change only as `abs` does
Check(nm2, ino2, abs2, tags) == bad' = bad \cup tags \cup (IF Proj(nm2, ino2) # abs2 THEN {"refinement"} ELSE {})
                                          \cup (IF \E n \in PubNames : Proj(nm2, ino2)[n] \in {"torn", "empty"} THEN {"incomplete-content"} ELSE {})
Quiet == /\ UNCHANGED <<names, inodes, nexti, lock, abs>> /\ bad' = bad

Reply(s, r) == replies' = [replies EXCEPT ![s] = Append(@, r)]
NextReq(s) == /\ ri' = [ri EXCEPT ![s] = @ + 1] /\ pc' = [pc EXCEPT ![s] = "idle"] /\ loc' = [loc EXCEPT ![s] = Loc0]

Begin(s) == /\ pc[s] = "idle" /\ ri[s] <= Len(Programs[s])
            /\ pc' = [pc EXCEPT ![s] = Req(s).op] /\ UNCHANGED <<ri, loc, replies>> /\ Quiet

(* ---- Put ---- *)
POpen(s) == /\ pc[s] = "put"
            /\ LET t == Tmp(s, Req(s).path) IN
               IF names[t] = 0
                 THEN /\ names' = [names EXCEPT ![t] = nexti] /\ inodes' = [inodes EXCEPT ![nexti] = <<>>] /\ nexti' = nexti + 1
                      /\ loc' = [loc EXCEPT ![s].fd = nexti]
                 ELSE /\ inodes' = [inodes EXCEPT ![names[t]] = <<>>] /\ UNCHANGED <<names, nexti>>      \* O_TRUNC of whatever is there
                      /\ loc' = [loc EXCEPT ![s].fd = names[t]]
            /\ pc' = [pc EXCEPT ![s] = "pwrite"] /\ UNCHANGED <<lock, ri, replies, abs>>
            /\ Check(names', inodes', abs, {})
PWrite(s) == /\ pc[s] = "pwrite" /\ loc[s].w < Ch
             /\ inodes' = [inodes EXCEPT ![loc[s].fd] = Append(@, <<Req(s).c, loc[s].w + 1>>)]
             /\ loc' = [loc EXCEPT ![s].w = @ + 1]
             /\ UNCHANGED <<names, nexti, lock, pc, ri, replies, abs>> /\ Check(names, inodes', abs, {})
PVerify(s) == /\ pc[s] = "pwrite" /\ loc[s].w = Ch
              /\ IF Req(s).hashok
                   THEN pc' = [pc EXCEPT ![s] = "plock"] /\ UNCHANGED <<names, ri, loc, replies>> /\ bad' = bad
                   ELSE /\ names' = [names EXCEPT ![Tmp(s, Req(s).path)] = 0]            \* remove_file(tmp): the NAME, whatever it is now
                        /\ Reply(s, [op |-> "put", r |-> "error"]) /\ NextReq(s)
                        /\ Check(names', inodes, abs, {})
              /\ UNCHANGED <<inodes, nexti, lock, abs>>
PLock(s) == /\ pc[s] \in {"plock", "dlock"} /\ lock = 0
            /\ lock' = s /\ pc' = [pc EXCEPT ![s] = IF pc[s] = "plock" THEN "pread" ELSE "dread"]
            /\ UNCHANGED <<names, inodes, nexti, ri, loc, replies, abs>> /\ bad' = bad
PRead(s) == /\ pc[s] \in {"pread", "dread"}
            /\ loc' = [loc EXCEPT ![s].cur = ClassOf(Live(Req(s).path))]
            /\ pc' = [pc EXCEPT ![s] = IF pc[s] = "pread" THEN "pren" ELSE "dunl"]
            /\ UNCHANGED <<ri, replies>> /\ Quiet
PRename(s) == /\ pc[s] = "pren"
              /\ LET r == Req(s)  t == Tmp(s, r.path)
                     commit == loc[s].cur = r.exp
                     target == IF commit THEN Live(r.path) ELSE Conf(r.path, r.c)
                     nm2 == IF names[t] = 0 THEN names ELSE [names EXCEPT ![target] = names[t], ![t] = 0]
                     abs2 == IF abs[Live(r.path)] = r.exp THEN [abs EXCEPT ![Live(r.path)] = r.c] ELSE [abs EXCEPT ![Conf(r.path, r.c)] = r.c]
                 IN /\ names' = nm2 /\ abs' = abs2
                    /\ loc' = [loc EXCEPT ![s].res = IF commit THEN "committed" ELSE "conflict"]
                    /\ Check(nm2, inodes, abs2, IF commit # (abs[Live(r.path)] = r.exp) THEN {"cas-decision"} ELSE {})
              /\ pc' = [pc EXCEPT ![s] = "punlock"] /\ UNCHANGED <<inodes, nexti, lock, ri, replies>>
PUnlock(s) == /\ pc[s] \in {"punlock", "dunlock"} /\ lock' = 0
              /\ pc' = [pc EXCEPT ![s] = IF pc[s] = "punlock" THEN "preply" ELSE "dreply"]
              /\ UNCHANGED <<names, inodes, nexti, ri, loc, replies, abs>> /\ bad' = bad
PReply(s) == /\ pc[s] = "preply"
             /\ Reply(s, [op |-> "put", r |-> loc[s].res, cur |-> IF loc[s].res = "committed" THEN Req(s).c ELSE loc[s].cur]) /\ NextReq(s) /\ Quiet

(* ---- Delete ---- *)
DBegin(s) == /\ pc[s] = "delete" /\ pc' = [pc EXCEPT ![s] = "dlock"] /\ UNCHANGED <<ri, loc, replies>> /\ Quiet
DUnlink(s) == /\ pc[s] = "dunl"
              /\ LET r == Req(s)  doit == loc[s].cur = r.exp
                     nm2 == IF doit THEN [names EXCEPT ![Live(r.path)] = 0] ELSE names
                     abs2 == IF abs[Live(r.path)] = r.exp THEN [abs EXCEPT ![Live(r.path)] = None] ELSE abs
                 IN /\ names' = nm2 /\ abs' = abs2 /\ loc' = [loc EXCEPT ![s].res = IF doit THEN "deleted" ELSE "refused"]
                    /\ Check(nm2, inodes, abs2, IF doit # (abs[Live(r.path)] = r.exp) THEN {"cas-decision"} ELSE {})
              /\ pc' = [pc EXCEPT ![s] = "dunlock"] /\ UNCHANGED <<inodes, nexti, lock, ri, replies>>
DReply(s) == /\ pc[s] = "dreply" /\ Reply(s, [op |-> "delete", r |-> loc[s].res, cur |-> IF loc[s].res = "deleted" THEN None ELSE loc[s].cur]) /\ NextReq(s) /\ Quiet

(* ---- Get ---- *)
GStat(s) == /\ pc[s] = "get"
            /\ LET n == Live(Req(s).path) IN
               IF names[n] = 0 THEN Reply(s, [op |-> "get", r |-> "notfound"]) /\ NextReq(s)
               ELSE /\ loc' = [loc EXCEPT ![s].len = Len(Data(n)), ![s].fd = names[n]]
                    /\ pc' = [pc EXCEPT ![s] = "ghash"] /\ UNCHANGED <<ri, replies>>
            /\ Quiet
GHash(s) == /\ pc[s] = "ghash"
            /\ LET n == Live(Req(s).path)
                   d == IF GetThreeLooks THEN Data(n) ELSE inodes[loc[s].fd] IN
               IF GetThreeLooks /\ names[n] = 0 THEN Reply(s, [op |-> "get", r |-> "notfound"]) /\ NextReq(s)
               ELSE loc' = [loc EXCEPT ![s].hash = d] /\ pc' = [pc EXCEPT ![s] = "gstream"] /\ UNCHANGED <<ri, replies>>
            /\ Quiet
GStream(s) == /\ pc[s] = "gstream"
              /\ LET n == Live(Req(s).path)
                     d == IF GetThreeLooks THEN Data(n) ELSE inodes[loc[s].fd]
                 IN /\ Reply(s, [op |-> "get", r |-> "content", len |-> loc[s].len, hash |-> loc[s].hash, body |-> d]) /\ NextReq(s)
                    /\ bad' = bad \cup (IF Len(d) # loc[s].len \/ d # loc[s].hash THEN {"get-mismatch"} ELSE {})
                                  \cup (IF Class(d) \in {"torn", "empty"} THEN {"get-incomplete"} ELSE {})
              /\ UNCHANGED <<names, inodes, nexti, lock, abs>>

(* ---- List: directory snapshot, then one hash per name, no lock ---- *)
LBegin(s) == /\ pc[s] = "list"
             /\ loc' = [loc EXCEPT ![s].todo = SelectSeq(<<Live("f"), Live("g")>>, LAMBDA n : n \in PubNames /\ names[n] # 0), ![s].seen = <<>>]
             /\ pc' = [pc EXCEPT ![s] = "lhash"] /\ UNCHANGED <<ri, replies>> /\ Quiet
LHash(s) == /\ pc[s] = "lhash" /\ loc[s].todo # <<>>
            /\ LET n == Head(loc[s].todo) IN
               loc' = [loc EXCEPT ![s].todo = Tail(@), ![s].seen = IF names[n] = 0 THEN @ ELSE Append(@, <<n, ClassOf(n)>>)]
            /\ UNCHANGED <<pc, ri, replies>> /\ Quiet
LReply(s) == /\ pc[s] = "lhash" /\ loc[s].todo = <<>>
             /\ Reply(s, [op |-> "list", r |-> loc[s].seen]) /\ NextReq(s) /\ Quiet

Kill(s) == /\ AllowKill /\ pc[s] # "dead" /\ ri[s] <= Len(Programs[s])
           /\ pc' = [pc EXCEPT ![s] = "dead"] /\ lock' = IF lock = s THEN 0 ELSE lock
           /\ UNCHANGED <<names, inodes, nexti, ri, loc, replies, abs>> /\ bad' = bad

Step(s) == \/ Begin(s) \/ POpen(s) \/ PWrite(s) \/ PVerify(s) \/ PLock(s) \/ PRead(s) \/ PRename(s) \/ PUnlock(s) \/ PReply(s)
           \/ DBegin(s) \/ DUnlink(s) \/ DReply(s) \/ GStat(s) \/ GHash(s) \/ GStream(s) \/ LBegin(s) \/ LHash(s) \/ LReply(s)
Next == \E s \in Servers : Step(s) \/ Kill(s)
Spec == Init /\ [][Next]_vars

(* ---- properties ---- *)
Clean == bad = {}                                                             \* C03 (refinement of HubAtomic) and C10 in one flag set
Complete == \A n \in PubNames : names[n] # 0 => Class(inodes[names[n]]) \in Contents      \* C10 as a plain state invariant
MutualExclusion == lock \in Servers \cup {0}
AllDone == \A s \in Servers : pc[s] = "dead" \/ (pc[s] = "idle" /\ ri[s] > Len(Programs[s]))
=============================================================================
