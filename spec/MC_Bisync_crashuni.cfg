SPECIFICATION Spec
CONSTANTS
  NB = 2
  C = 2
  MaxDepth = 1
  MaxK = 1
  FixStale = TRUE
  FixCollide = TRUE
  Editable = {}
  InitContents = 0
CHECK_DEADLOCK FALSE
