-------------------------------- MODULE Glob --------------------------------
(* TLC search for GlobDefs: one state per pattern, all texts quantified inside; emits *)
(* per pattern the texts it matches and the paths it excludes for the spec->code replay. *)
EXTENDS GlobDefs
CONSTANT L

(* ---- TLC: one state per pattern; all texts quantified inside ---- *)
VARIABLES pat, phase
vars == <<pat, phase>>
Init == pat \in Strs(L) /\ phase = "new"
Next == phase = "new" /\ phase' = "checked" /\ UNCHANGED pat
Spec == Init /\ [][Next]_vars

GlobOK == \A t \in Strs(L) : GlobAlg(pat, t) = Match(pat, t)

\* file-name components: non-empty, slash-free, and not the directory entries "." / ".."
Names == {t \in Strs(2) : t # <<>> /\ ~HasSlash(t) /\ t # <<".">> /\ t # <<".", ".">>}
Rels  == {<<n>> : n \in Names} \cup {<<n, m>> : n \in {<<"a">>, <<"*">>, <<"a", ".">>}, m \in Names}
ExcludeOK == \A rel \in Rels : ExcludedAlg(rel, <<pat>>) = ExcludedDef(rel, <<pat>>)

\* spec -> code: per pattern, the set of texts it matches and the set of paths it excludes
Emit == phase = "checked" =>
  PrintT(<<"CASE", ToJson([pat |-> pat,
                           yes |-> {t \in Strs(L) : Match(pat, t)},
                           excl |-> {rel \in Rels : ExcludedDef(rel, <<pat>>)}])>>)
=============================================================================
